package main

import (
	"fmt"
	"go/types"

	"golang.org/x/tools/go/ssa"
)

type mapInfo struct {
	key     string // type key
	strKey  bool   // string keys: the key sort is Int, the key term is the string's identity strid(ptr, len)
	kSort   string
	vLeaves []Leaf
	domSite string
	lenSite string
	valSite []string
}

func (u *Unit) mapInfo(t types.Type) *mapInfo {
	m := t.Underlying().(*types.Map)
	kl := leavesOf(m.Key(), "elem")
	isStr := false
	if b, ok := m.Key().Underlying().(*types.Basic); ok && b.Info()&types.IsString != 0 {
		isStr = true
	}
	if len(kl) != 1 && !isStr {
		unsupportedf("map key type %s", m.Key())
	}
	mi := &mapInfo{key: typeKey(t), kSort: kl[0].Sort, vLeaves: leavesOf(m.Elem(), "elem")}
	if isStr {
		mi.strKey, mi.kSort = true, SInt
	}
	mi.domSite = "map." + mi.key + ".dom"
	mi.lenSite = "map." + mi.key + ".len"
	for j := range mi.vLeaves {
		site := fmt.Sprintf("map.%s.val#%d", mi.key, j)
		mi.valSite = append(mi.valSite, site)
		mapValKind[site] = mi.vLeaves[j]
		mapKeySort[site] = mi.kSort
	}
	return mi
}

// String keys. Strings are immutable and compared by content, so a key is identified by strid(ptr, len), an
// uninterpreted function constrained pairwise: two key strings used in this unit have the same identity exactly when
// their contents are equal. strptr/strlen give back a representative string for an identity (used by iteration and by
// quantification over keys); strid(strptr(i), strlen(i)) = i is assumed for every identity that is looked at.
const stridFn, strptrFn, strlenFn = "strid", "strkey.ptr", "strkey.len"

func (u *Unit) ensureStrKeys() {
	if u.strKeyDecl {
		return
	}
	u.strKeyDecl = true
	u.ctx.declareFun(stridFn, []string{SInt, SInt}, SInt)
	u.ctx.declareFun(strptrFn, []string{SInt}, SInt)
	u.ctx.declareFun(strlenFn, []string{SInt}, SInt)
	// every identity has a representative string (strid is onto the identities); representatives are well-formed strings
	u.ctx.assert("strkey", fmt.Sprintf("(forall ((i! Int)) (! (and (= (%s (%s i!) (%s i!)) i!) (<= 0 (%s i!)) (<= (%s i!) 1099511627776) (<= 0 (%s i!))) :pattern ((%s i!)) :pattern ((%s i!))))", stridFn, strptrFn, strlenFn, strlenFn, strlenFn, strptrFn, strptrFn, strlenFn))
}

// strKeyTerm returns the identity term of string value k and relates it to every key string seen before.
func (u *Unit) strKeyTerm(strArr string, k Val) string {
	u.ensureStrKeys()
	id := u.ctx.def("strkey", SInt, app(stridFn, k.S[0], k.S[1]))
	sig := k.S[0] + "\x00" + k.S[1]
	for _, old := range u.strKeys {
		if old.sig == sig {
			return id
		}
	}
	for _, old := range u.strKeys {
		e := u.strEqArr(strArr, old.v, k)
		u.ctx.assert("strkey", eq(eq(old.id, id), e))
	}
	u.strKeys = append(u.strKeys, strKeyRec{sig: sig, v: k, id: id})
	return id
}

func (u *Unit) mapKeyTerm(st *state, mi *mapInfo, k Val) string {
	if !mi.strKey {
		return k.S[0]
	}
	return u.strKeyTerm(u.arr(st.mem, strSite, SBV(8)), k)
}

// keyString returns a representative string value for identity term id.
func (u *Unit) keyString(id string, t types.Type, alloc string) Val {
	u.ensureStrKeys()
	p, n := app(strptrFn, id), app(strlenFn, id)
	// a key that is in a map now was allocated before now
	u.ctx.assert("strkey", and(eq(app(stridFn, p, n), id), le("0", n), le(n, "1099511627776"), le("0", p), le(add(p, n), alloc)))
	return Val{T: t, S: []string{p, n}}
}

func (u *Unit) mapDom(st *state, mi *mapInfo) string {
	return u.arr(st.mem, mi.domSite, SArr(mi.kSort, SBool))
}

func (u *Unit) mapValArr(st *state, mi *mapInfo, j int) string {
	return u.arr(st.mem, mi.valSite[j], SArr(mi.kSort, mi.vLeaves[j].Sort))
}

func (u *Unit) mapLen(st *state, m Val, t types.Type) string {
	mi := u.mapInfo(t)
	l := sel(u.arr(st.mem, mi.lenSite, SInt), m.S[0])
	ln := u.ctx.def("maplen", SInt, ite(eq(m.S[0], "0"), "0", l))
	u.ctx.assert("typing", implies(st.reach, and(le("0", ln), le(ln, "1099511627776"))))
	// len == 0 iff dom is empty cannot be stated without quantifiers over keys; provide one direction lazily
	return ln
}

func (f *Frame) makeMap(x *ssa.MakeMap, st *state) {
	u := f.u
	mi := u.mapInfo(x.Type())
	ref := u.alloc(st, "1")
	dom := u.mapDom(st, mi)
	u.setArr(st.mem, mi.domSite, SArr(mi.kSort, SBool), store(dom, ref, fmt.Sprintf("((as const %s) false)", SArr(mi.kSort, SBool))))
	ln := u.arr(st.mem, mi.lenSite, SInt)
	u.setArr(st.mem, mi.lenSite, SInt, store(ln, ref, "0"))
	f.bind(x, Val{S: []string{ref}})
}

func (f *Frame) mapUpdate(x *ssa.MapUpdate, st *state) {
	u := f.u
	m := f.val(x.Map)
	k := f.val(x.Key)
	v := f.val(x.Value)
	u.oblige(f, st, "mapnil", f.ordLabel(x, "mapnil"), x.Pos(), not(eq(m.S[0], "0")))
	u.mapStore(st, m, x.Map.Type(), k, v)
}

func (u *Unit) mapStore(st *state, m Val, t types.Type, k, v Val) {
	mi := u.mapInfo(t)
	dom := u.mapDom(st, mi)
	k = Val{T: k.T, S: []string{u.mapKeyTerm(st, mi, k)}}
	present := u.ctx.def("mpres", SBool, sel(sel(dom, m.S[0]), k.S[0]))
	u.setArr(st.mem, mi.domSite, SArr(mi.kSort, SBool), store(dom, m.S[0], store(sel(dom, m.S[0]), k.S[0], "true")))
	ln := u.arr(st.mem, mi.lenSite, SInt)
	u.setArr(st.mem, mi.lenSite, SInt, store(ln, m.S[0], ite(present, sel(ln, m.S[0]), add(sel(ln, m.S[0]), "1"))))
	for j := range mi.vLeaves {
		a := u.mapValArr(st, mi, j)
		u.setArr(st.mem, mi.valSite[j], SArr(mi.kSort, mi.vLeaves[j].Sort), store(a, m.S[0], store(sel(a, m.S[0]), k.S[0], v.S[j])))
	}
}

func (u *Unit) mapDelete(st *state, m Val, t types.Type, k Val) {
	mi := u.mapInfo(t)
	dom := u.mapDom(st, mi)
	k = Val{T: k.T, S: []string{u.mapKeyTerm(st, mi, k)}}
	present := u.ctx.def("mpres", SBool, and(not(eq(m.S[0], "0")), sel(sel(dom, m.S[0]), k.S[0])))
	u.setArr(st.mem, mi.domSite, SArr(mi.kSort, SBool), ite(eq(m.S[0], "0"), dom, store(dom, m.S[0], store(sel(dom, m.S[0]), k.S[0], "false"))))
	ln := u.arr(st.mem, mi.lenSite, SInt)
	u.setArr(st.mem, mi.lenSite, SInt, ite(present, store(ln, m.S[0], sub(sel(ln, m.S[0]), "1")), ln))
}

func (u *Unit) mapClear(st *state, m Val, t types.Type) {
	mi := u.mapInfo(t)
	dom := u.mapDom(st, mi)
	u.setArr(st.mem, mi.domSite, SArr(mi.kSort, SBool), ite(eq(m.S[0], "0"), dom, store(dom, m.S[0], fmt.Sprintf("((as const %s) false)", SArr(mi.kSort, SBool)))))
	ln := u.arr(st.mem, mi.lenSite, SInt)
	u.setArr(st.mem, mi.lenSite, SInt, store(ln, m.S[0], "0"))
}

// mapGet returns (present, value).
func (u *Unit) mapGet(st *state, m Val, t types.Type, k Val) (string, Val) {
	mi := u.mapInfo(t)
	mt := t.Underlying().(*types.Map)
	dom := u.mapDom(st, mi)
	k = Val{T: k.T, S: []string{u.mapKeyTerm(st, mi, k)}}
	present := u.ctx.def("mhas", SBool, and(not(eq(m.S[0], "0")), sel(sel(dom, m.S[0]), k.S[0])))
	v := Val{T: mt.Elem()}
	for j, l := range mi.vLeaves {
		a := u.mapValArr(st, mi, j)
		v.S = append(v.S, u.ctx.def("mval", l.Sort, ite(present, sel(sel(a, m.S[0]), k.S[0]), zeroOf(l.Sort))))
	}
	if !u.noAssume {
		if f := u.typingFact(v, st.mem); f != "true" {
			u.ctx.assert("typing", implies(st.reach, f))
		}
	}
	return present, v
}

func (f *Frame) lookup(x *ssa.Lookup, st *state) {
	u := f.u
	base := f.val(x.X)
	if _, ok := x.X.Type().Underlying().(*types.Map); ok {
		present, v := u.mapGet(st, base, x.X.Type(), f.val(x.Index))
		if x.CommaOk {
			out := Val{S: append(append([]string(nil), v.S...), present)}
			f.bind(x, out)
		} else {
			f.bind(x, v)
		}
		return
	}
	// string index
	idx := f.intIndex(x.Index)
	u.oblige(f, st, "bounds", f.ordLabel(x, "bounds"), x.Pos(), and(le("0", idx), lt(idx, base.S[1])))
	f.bind(x, Val{S: []string{sel(u.arr(st.mem, strSite, SBV(8)), add(base.S[0], idx))}})
}

// ---------- map iteration ----------
// An iterator is a heap cell holding the set of visited keys (site iter.<maptype>).

type iterInfo struct {
	m    Val
	mapT types.Type
	addr string
}

var iterOf = map[*ssa.Range]map[*Frame]*iterInfo{}

func (f *Frame) rangeInstr(x *ssa.Range, st *state) {
	u := f.u
	if _, ok := x.X.Type().Underlying().(*types.Map); !ok {
		f.unsupported(st, x, "range over string")
		f.bind(x, Val{S: []string{"0"}})
		return
	}
	mi := u.mapInfo(x.X.Type())
	site := "iter." + mi.key
	it := u.alloc(st, "1")
	a := u.arr(st.mem, site, SArr(mi.kSort, SBool))
	u.setArr(st.mem, site, SArr(mi.kSort, SBool), store(a, it, fmt.Sprintf("((as const %s) false)", SArr(mi.kSort, SBool))))
	if iterOf[x] == nil {
		iterOf[x] = map[*Frame]*iterInfo{}
	}
	iterOf[x][f] = &iterInfo{m: f.val(x.X), mapT: x.X.Type(), addr: it}
	f.vals[x] = Val{T: x.Type(), S: []string{it}}
}

func (f *Frame) nextInstr(x *ssa.Next, st *state) {
	u := f.u
	if x.IsString {
		f.unsupported(st, x, "range over string")
		f.bindHavoc(x, st)
		return
	}
	r := x.Iter.(*ssa.Range)
	info := iterOf[r][f]
	mi := u.mapInfo(info.mapT)
	mt := info.mapT.Underlying().(*types.Map)
	site := "iter." + mi.key
	vis := u.arr(st.mem, site, SArr(mi.kSort, SBool))
	visited := u.ctx.def("visited", SArr(mi.kSort, SBool), sel(vis, info.addr))
	dom := u.ctx.def("itdom", SArr(mi.kSort, SBool), ite(eq(info.m.S[0], "0"), fmt.Sprintf("((as const %s) false)", SArr(mi.kSort, SBool)), sel(u.mapDom(st, mi), info.m.S[0])))
	ok := u.ctx.freshConst("itok", SBool)
	k := u.ctx.freshConst("itkey", mi.kSort)
	u.ctx.assert("maprange", implies(st.reach, implies(ok, and(sel(dom, k), not(sel(visited, k))))))
	u.ctx.assert("maprange", implies(st.reach, implies(not(ok), fmt.Sprintf("(forall ((k! %s)) (! (=> (select %s k!) (select %s k!)) :pattern ((select %s k!))))", mi.kSort, dom, visited, dom))))
	u.setArr(st.mem, site, SArr(mi.kSort, SBool), store(vis, info.addr, ite(ok, store(visited, k, "true"), visited)))
	// value
	kv := Val{T: mt.Key(), S: []string{k}}
	var keyOut []string
	if mi.strKey {
		ks := u.keyString(k, mt.Key(), st.mem.alloc)
		u.strKeys = append(u.strKeys, strKeyRec{sig: ks.S[0] + "\x00" + ks.S[1], v: ks, id: k})
		keyOut = ks.S
		kv = ks
	} else {
		keyOut = []string{k}
		if !u.noAssume {
			if tf := u.typingFact(kv, st.mem); tf != "true" {
				u.ctx.assert("typing", implies(st.reach, tf))
			}
		}
	}
	_, v := u.mapGet(st, info.m, info.mapT, kv)
	out := Val{S: []string{ok}}
	tup := x.Type().(*types.Tuple)
	// tuple is (ok bool, k K, v V) but components may be "invalid" typed when unused
	if len(leavesOfSafe(tup.At(1).Type())) > 0 {
		out.S = append(out.S, keyOut...)
	}
	if n := len(leavesOfSafe(tup.At(2).Type())); n > 0 {
		out.S = append(out.S, v.S...)
	}
	f.vals[x] = Val{T: x.Type(), S: out.S}
}

func leavesOfSafe(t types.Type) (ls []Leaf) {
	defer func() {
		if r := recover(); r != nil {
			if _, ok := r.(unsupported); ok {
				ls = nil
				return
			}
			panic(r)
		}
	}()
	if b, ok := t.(*types.Basic); ok && b.Kind() == types.Invalid {
		return nil
	}
	return leavesOf(t, "elem")
}
