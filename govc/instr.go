package main

import (
	"fmt"
	"strconv"
	"go/token"
	"go/types"
	"math/big"
	"strings"

	"golang.org/x/tools/go/ssa"
)

func (f *Frame) unsupported(st *state, ins ssa.Instruction, what string) {
	// an unsupported construct must be unreachable; otherwise the unit is not verified
	f.u.oblige(f, st, "unsupported", f.ordLabel(ins, "unsupported")+" "+what, ins.Pos(), "false")
	st.reach = "false"
}

func (f *Frame) instr(ins ssa.Instruction, st *state) {
	u := f.u
	switch x := ins.(type) {
	case *ssa.DebugRef:
		return
	case *ssa.If, *ssa.Jump:
		return
	case *ssa.Return:
		var vals []Val
		for _, r := range x.Results {
			vals = append(vals, f.val(r))
		}
		f.rets = append(f.rets, retInfo{reach: st.reach, mem: st.mem.clone(), vals: vals, pos: x.Pos(), blk: f.u.ctx.curBlk})
	case *ssa.Panic:
		u.oblige(f, st, "panic", f.ordLabel(ins, "panic"), x.Pos(), "false")
		st.reach = "false"
	case *ssa.Alloc:
		elem := x.Type().(*types.Pointer).Elem()
		p := u.allocZero(st, elem)
		f.bind(x, Val{S: []string{p}})
	case *ssa.FieldAddr:
		base := f.val(x.X)
		st0 := x.X.Type().Underlying().(*types.Pointer).Elem()
		u.oblige(f, st, "nil", f.ordLabel(ins, "nil"), x.Pos(), not(eq(base.S[0], "0")))
		off, _, _ := fieldOffset(st0, x.Field)
		f.bind(x, Val{S: []string{add(base.S[0], intLit(int64(off)))}, Hint: fieldHint(st0, x.Field)})
	case *ssa.Field:
		base := f.val(x.X)
		_, ls, le := fieldOffset(x.X.Type(), x.Field)
		f.bind(x, Val{S: append([]string(nil), base.S[ls:le]...)})
	case *ssa.IndexAddr:
		f.indexAddr(x, st)
	case *ssa.Index:
		f.index(x, st)
	case *ssa.UnOp:
		f.unop(x, st)
	case *ssa.BinOp:
		f.binop(x, st)
	case *ssa.Store:
		addr := f.val(x.Addr)
		elem := x.Addr.Type().Underlying().(*types.Pointer).Elem()
		u.oblige(f, st, "nil", f.ordLabel(ins, "nil"), x.Pos(), not(eq(addr.S[0], "0")))
		u.store(st, addr.S[0], elem, f.ptrHint(x.Addr, addr), f.val(x.Val))
	case *ssa.Slice:
		f.slice(x, st)
	case *ssa.Convert:
		f.convert(x, st)
	case *ssa.ChangeType:
		v := f.val(x.X)
		f.bind(x, Val{S: v.S, Fn: v.Fn, Binds: v.Binds, Hint: v.Hint})
	case *ssa.ChangeInterface:
		v := f.val(x.X)
		f.bind(x, Val{S: v.S, DynT: v.DynT, DynV: v.DynV})
	case *ssa.MakeInterface:
		f.makeInterface(x, st)
	case *ssa.MakeClosure:
		var binds []Val
		for _, b := range x.Bindings {
			binds = append(binds, f.val(b))
		}
		f.bind(x, Val{S: []string{"1"}, Fn: x.Fn.(*ssa.Function), Binds: binds})
	case *ssa.MakeChan:
		f.makeChan(x, st)
	case *ssa.Send:
		f.chanSend(x, st)
	case *ssa.MakeSlice:
		f.makeSlice(x, st)
	case *ssa.MakeMap:
		f.makeMap(x, st)
	case *ssa.MapUpdate:
		f.mapUpdate(x, st)
	case *ssa.Lookup:
		f.lookup(x, st)
	case *ssa.Extract:
		tup := f.val(x.Tuple)
		s, e := tupleLeafRange(x.Tuple.Type().(*types.Tuple), x.Index)
		v := Val{S: append([]string(nil), tup.S[s:e]...)}
		f.bind(x, v)
	case *ssa.Call:
		res := f.call(st, &x.Call, x)
		if res != nil {
			f.bind(x, *res)
		}
	case *ssa.TypeAssert:
		f.typeAssert(x, st)
	case *ssa.Range:
		f.rangeInstr(x, st)
	case *ssa.Next:
		f.nextInstr(x, st)
	case *ssa.Defer:
		// deferred call of a statically known function / closure: recorded with the reachability of the defer statement
		var callee *ssa.Function
		var binds []Val
		if mc, ok := x.Call.Value.(*ssa.MakeClosure); ok {
			callee = mc.Fn.(*ssa.Function)
			for _, b := range mc.Bindings {
				binds = append(binds, f.val(b))
			}
		} else if fn := x.Call.StaticCallee(); fn != nil {
			callee = fn
		} else if fv, ok := f.vals[x.Call.Value]; ok && fv.Fn != nil {
			callee, binds = fv.Fn, fv.Binds
		}
		if b, ok := x.Call.Value.(*ssa.Builtin); ok && b.Name() == "close" && f.loopDepthOf(x.Block()) == 0 {
			f.defers = append(f.defers, deferred{builtin: b, guard: st.reach, ins: x})
			return
		}
		if callee == nil || x.Call.IsInvoke() || f.loopDepthOf(x.Block()) > 0 {
			f.unsupported(st, ins, "defer of a dynamic call or inside a loop")
			return
		}
		var args []Val
		for _, a := range x.Call.Args {
			args = append(args, f.val(a))
		}
		f.defers = append(f.defers, deferred{fn: callee, args: args, binds: binds, guard: st.reach, ins: x})
	case *ssa.RunDefers:
		for i := len(f.defers) - 1; i >= 0; i-- {
			d := f.defers[i]
			sub := &state{reach: and(st.reach, d.guard), mem: st.mem}
			if d.builtin != nil {
				sub.mem = st.mem.clone()
				f.builtin(sub, d.builtin, &d.ins.(*ssa.Defer).Call, d.ins, nil)
			} else {
				f.callStatic(sub, d.fn, d.args, d.binds, d.ins, nil)
			}
			// the deferred call only happened when its defer statement was executed
			if d.guard == st.reach || d.guard == "true" {
				st.mem = sub.mem
			} else {
				st.mem = f.u.mergeMem([]string{d.guard, not(d.guard)}, []*Mem{sub.mem, st.mem})
			}
		}
	case *ssa.SliceToArrayPointer:
		v := f.val(x.X)
		n := x.Type().Underlying().(*types.Pointer).Elem().Underlying().(*types.Array).Len()
		u.oblige(f, st, "conv", f.ordLabel(ins, "conv"), x.Pos(), le(intLit(n), v.S[1]))
		f.bind(x, Val{S: []string{v.S[0]}})
	default:
		f.unsupported(st, ins, fmt.Sprintf("%T", ins))
		if v, ok := ins.(ssa.Value); ok {
			f.bindHavoc(v, st)
		}
	}
}

func (f *Frame) bindHavoc(v ssa.Value, st *state) {
	defer func() {
		if r := recover(); r != nil {
			if _, ok := r.(unsupported); ok {
				return
			}
			panic(r)
		}
	}()
	f.bind(v, f.u.havocVal(f.name(v), v.Type(), st.mem, st.reach))
}

// ptrHint determines the site hint of the pointee of pointer value v.
func (f *Frame) ptrHint(v ssa.Value, val Val) string {
	if val.Hint != "" {
		return val.Hint
	}
	return "elem"
}

func (f *Frame) indexAddr(x *ssa.IndexAddr, st *state) {
	u := f.u
	base := f.val(x.X)
	idx := f.intIndex(x.Index)
	switch t := x.X.Type().Underlying().(type) {
	case *types.Slice:
		u.oblige(f, st, "bounds", f.ordLabel(x, "bounds"), x.Pos(), and(le("0", idx), lt(idx, base.S[1])))
		stride := elemStride(t.Elem())
		f.bind(x, Val{S: []string{add(base.S[0], mul(idx, intLit(int64(stride))))}})
	case *types.Pointer:
		arr := t.Elem().Underlying().(*types.Array)
		u.oblige(f, st, "nil", f.ordLabel(x, "nil"), x.Pos(), not(eq(base.S[0], "0")))
		u.oblige(f, st, "bounds", f.ordLabel(x, "bounds"), x.Pos(), and(le("0", idx), lt(idx, intLit(arr.Len()))))
		stride := elemStride(arr.Elem())
		f.bind(x, Val{S: []string{add(base.S[0], mul(idx, intLit(int64(stride))))}})
	default:
		unsupportedf("IndexAddr on %s", x.X.Type())
	}
}

// intIndex converts an index value of any integer type to an Int term.
func (f *Frame) intIndex(v ssa.Value) string {
	val := f.val(v)
	return toInt(val.S[0], v.Type())
}

func toInt(term string, t types.Type) string {
	if isIntSort(t) {
		return term
	}
	b, ok := t.Underlying().(*types.Basic)
	if !ok {
		unsupportedf("toInt of %s", t)
	}
	sort, _ := intSort(b)
	w := bvWidth(sort)
	if w == 0 {
		unsupportedf("toInt of %s", t)
	}
	if isSigned(t) {
		return bv2intSigned(term, w)
	}
	return bv2nat(term)
}

func (f *Frame) index(x *ssa.Index, st *state) {
	u := f.u
	base := f.val(x.X)
	idx := f.intIndex(x.Index)
	switch t := x.X.Type().Underlying().(type) {
	case *types.Array:
		u.oblige(f, st, "bounds", f.ordLabel(x, "bounds"), x.Pos(), and(le("0", idx), lt(idx, intLit(t.Len()))))
		n := len(leavesOf(t.Elem(), "elem"))
		// select among flattened elements
		res := make([]string, n)
		for k := 0; k < n; k++ {
			term := base.S[(int(t.Len())-1)*n+k]
			for j := int(t.Len()) - 2; j >= 0; j-- {
				term = ite(eq(idx, intLit(int64(j))), base.S[j*n+k], term)
			}
			res[k] = term
		}
		f.bind(x, Val{S: res})
	case *types.Basic: // string
		u.oblige(f, st, "bounds", f.ordLabel(x, "bounds"), x.Pos(), and(le("0", idx), lt(idx, base.S[1])))
		f.bind(x, Val{S: []string{sel(u.arr(st.mem, strSite, SBV(8)), add(base.S[0], idx))}})
	default:
		unsupportedf("Index on %s", x.X.Type())
	}
}

func (f *Frame) unop(x *ssa.UnOp, st *state) {
	u := f.u
	v := f.val(x.X)
	switch x.Op {
	case token.MUL: // load
		elem := x.X.Type().Underlying().(*types.Pointer).Elem()
		u.oblige(f, st, "nil", f.ordLabel(x, "nil"), x.Pos(), not(eq(v.S[0], "0")))
		if g, ok := x.X.(*ssa.Global); ok {
			if gv, ok := u.globalValue(g, st); ok {
				f.bind(x, gv)
				return
			}
		}
		f.bind(x, u.load(st, v.S[0], elem, f.ptrHint(x.X, v), true))
	case token.ARROW:
		// receive: an unknown value of the element type (sequential model, see the channel section below)
		f.bindHavoc(x, st)
	case token.NOT:
		f.bind(x, Val{S: []string{not(v.S[0])}})
	case token.SUB:
		if isIntSort(x.Type()) {
			r := app("-", v.S[0])
			u.oblige(f, st, "arith", f.ordLabel(x, "arith"), x.Pos(), le(r, "9223372036854775807"))
			f.bind(x, Val{S: []string{r}})
		} else {
			f.bind(x, Val{S: []string{app("bvneg", v.S[0])}})
		}
	case token.XOR:
		if isIntSort(x.Type()) {
			f.bind(x, Val{S: []string{sub(app("-", v.S[0]), "1")}})
		} else {
			f.bind(x, Val{S: []string{app("bvnot", v.S[0])}})
		}
	default:
		f.unsupported(st, x, "unop "+x.Op.String())
		f.bindHavoc(x, st)
	}
}

func pow2(n int) string { return new(big.Int).Lsh(big.NewInt(1), uint(n)).String() }

func (f *Frame) binop(x *ssa.BinOp, st *state) {
	u := f.u
	a, b := f.val(x.X), f.val(x.Y)
	t := x.X.Type()
	res := func(s string) { f.bind(x, Val{S: []string{s}}) }
	// comparisons on composite / reference values
	switch tt := t.Underlying().(type) {
	case *types.Basic:
		if tt.Info()&types.IsString != 0 {
			f.stringOp(x, a, b, st)
			return
		}
		if tt.Info()&types.IsFloat != 0 {
			f.unsupported(st, x, "float arithmetic")
			f.bindHavoc(x, st)
			return
		}
	case *types.Pointer, *types.Map, *types.Chan, *types.Signature, *types.Slice, *types.Interface, *types.Struct, *types.Array:
		var conj []string
		if _, isIface := tt.(*types.Interface); isIface {
			// comparison with a nil interface compares the type word only
			if (isNilConst(x.Y) || isNilConst(x.X)) {
				conj = []string{eq(a.S[0], b.S[0])}
			} else {
				conj = []string{eq(a.S[0], b.S[0]), eq(a.S[1], b.S[1])}
			}
		} else if _, isSl := tt.(*types.Slice); isSl {
			// only comparison with nil is legal: nil slice has ptr 0, cap 0
			other := a
			if isNilConst(x.X) {
				other = b
			}
			conj = []string{and(eq(other.S[0], "0"), eq(other.S[2], "0"))}
		} else {
			for i := range a.S {
				conj = append(conj, eq(a.S[i], b.S[i]))
			}
		}
		switch x.Op {
		case token.EQL:
			res(and(conj...))
		case token.NEQ:
			res(not(and(conj...)))
		default:
			unsupportedf("binop %s on %s", x.Op, t)
		}
		return
	}
	if bt, ok := t.Underlying().(*types.Basic); ok && bt.Info()&types.IsBoolean != 0 {
		switch x.Op {
		case token.EQL:
			res(eq(a.S[0], b.S[0]))
		case token.NEQ:
			res(not(eq(a.S[0], b.S[0])))
		case token.AND, token.LAND:
			res(and(a.S[0], b.S[0]))
		case token.OR, token.LOR:
			res(or(a.S[0], b.S[0]))
		default:
			unsupportedf("bool binop %s", x.Op)
		}
		return
	}
	A, B := a.S[0], b.S[0]
	if isIntSort(t) {
		inRange := func(r string) string {
			return and(le("(- 9223372036854775808)", r), le(r, "9223372036854775807"))
		}
		switch x.Op {
		case token.ADD:
			r := add(A, B)
			f.arith(x, st, r, inRange(r), a, b)
			res(r)
		case token.SUB:
			r := sub(A, B)
			f.arith(x, st, r, inRange(r), a, b)
			res(r)
		case token.MUL:
			r := mul(A, B)
			f.arith(x, st, r, inRange(r), a, b)
			res(r)
		case token.QUO:
			u.oblige(f, st, "div0", f.ordLabel(x, "div0"), x.Pos(), not(eq(B, "0")))
			res(goDiv(A, B))
		case token.REM:
			u.oblige(f, st, "div0", f.ordLabel(x, "div0"), x.Pos(), not(eq(B, "0")))
			res(sub(A, mul(B, goDiv(A, B))))
		case token.SHL, token.SHR:
			// shift count has its own type
			cnt, ok := constShift(x.Y)
			if !ok {
				f.unsupported(st, x, "non-constant shift of int")
				f.bindHavoc(x, st)
				return
			}
			if x.Op == token.SHL {
				r := mul(A, pow2(cnt))
				f.arith(x, st, r, inRange(r), a, b)
				res(r)
			} else {
				res(app("div", A, pow2(cnt))) // floor division == arithmetic shift
			}
		case token.EQL:
			res(eq(A, B))
		case token.NEQ:
			res(not(eq(A, B)))
		case token.LSS:
			res(lt(A, B))
		case token.LEQ:
			res(le(A, B))
		case token.GTR:
			res(lt(B, A))
		case token.GEQ:
			res(le(B, A))
		case token.AND, token.OR, token.XOR, token.AND_NOT:
			op := map[token.Token]string{token.AND: "bvand", token.OR: "bvor", token.XOR: "bvxor"}[x.Op]
			var r string
			if x.Op == token.AND_NOT {
				r = app("bvand", int2bv(A, 64), app("bvnot", int2bv(B, 64)))
			} else {
				r = app(op, int2bv(A, 64), int2bv(B, 64))
			}
			res(bv2intSigned(r, 64))
		default:
			unsupportedf("int binop %s", x.Op)
		}
		return
	}
	bt, ok := t.Underlying().(*types.Basic)
	if !ok {
		unsupportedf("binop on %s", t)
	}
	sort, _ := intSort(bt)
	w := bvWidth(sort)
	signed := isSigned(t)
	switch x.Op {
	case token.ADD:
		res(app("bvadd", A, B))
	case token.SUB:
		res(app("bvsub", A, B))
	case token.MUL:
		res(app("bvmul", A, B))
	case token.QUO:
		u.oblige(f, st, "div0", f.ordLabel(x, "div0"), x.Pos(), not(eq(B, bvLitU(0, w))))
		if signed {
			res(app("bvsdiv", A, B))
		} else {
			res(app("bvudiv", A, B))
		}
	case token.REM:
		u.oblige(f, st, "div0", f.ordLabel(x, "div0"), x.Pos(), not(eq(B, bvLitU(0, w))))
		if signed {
			res(app("bvsrem", A, B))
		} else {
			res(app("bvurem", A, B))
		}
	case token.AND:
		res(app("bvand", A, B))
	case token.OR:
		res(app("bvor", A, B))
	case token.XOR:
		res(app("bvxor", A, B))
	case token.AND_NOT:
		res(app("bvand", A, app("bvnot", B)))
	case token.SHL, token.SHR:
		// convert the count to width w, saturating
		cnt := f.shiftCount(x, st, b, x.Y.Type(), w)
		if x.Op == token.SHL {
			res(app("bvshl", A, cnt))
		} else if signed {
			res(app("bvashr", A, cnt))
		} else {
			res(app("bvlshr", A, cnt))
		}
	case token.EQL:
		res(eq(A, B))
	case token.NEQ:
		res(not(eq(A, B)))
	case token.LSS, token.LEQ, token.GTR, token.GEQ:
		ops := map[token.Token][2]string{token.LSS: {"bvult", "bvslt"}, token.LEQ: {"bvule", "bvsle"}, token.GTR: {"bvugt", "bvsgt"}, token.GEQ: {"bvuge", "bvsge"}}
		op := ops[x.Op][0]
		if signed {
			op = ops[x.Op][1]
		}
		res(app(op, A, B))
	default:
		unsupportedf("bv binop %s", x.Op)
	}
}

func isNilConst(v ssa.Value) bool {
	c, ok := v.(*ssa.Const)
	return ok && c.Value == nil
}

func constShift(v ssa.Value) (int, bool) {
	c, ok := v.(*ssa.Const)
	if !ok || c.Value == nil {
		return 0, false
	}
	n, ok := c.Uint64(), true
	if n > 62 {
		return 0, false
	}
	return int(n), ok
}

// shiftCount turns the shift count into a bit-vector of width w with Go semantics.
func (f *Frame) shiftCount(x *ssa.BinOp, st *state, b Val, ct types.Type, w int) string {
	if c, ok := x.Y.(*ssa.Const); ok && c.Value != nil {
		n := c.Uint64()
		if n >= uint64(w) {
			n = uint64(w)
		}
		return bvLitU(n, w)
	}
	if isIntSort(ct) {
		f.u.oblige(f, st, "shift", f.ordLabel(x, "shift"), x.Pos(), le("0", b.S[0]))
		return ite(le(intLit(int64(w)), b.S[0]), bvLitU(uint64(w), w), int2bv(b.S[0], w))
	}
	bt := ct.Underlying().(*types.Basic)
	srt, _ := intSort(bt)
	cw := bvWidth(srt)
	if isSigned(ct) {
		f.u.oblige(f, st, "shift", f.ordLabel(x, "shift"), x.Pos(), app("bvsge", b.S[0], bvLitU(0, cw)))
	}
	switch {
	case cw == w:
		return b.S[0]
	case cw < w:
		return app(fmt.Sprintf("(_ zero_extend %d)", w-cw), b.S[0])
	default:
		return ite(app("bvuge", b.S[0], bvLitU(uint64(w), cw)), bvLitU(uint64(w), w), app(fmt.Sprintf("(_ extract %d 0)", w-1), b.S[0]))
	}
}

func goDiv(a, b string) string {
	// Go truncates toward zero; SMT-LIB div floors for positive divisors and ceils for negative ones.
	return ite(le("0", a), app("div", a, b), app("-", app("div", app("-", a), b)))
}

func (f *Frame) arith(x *ssa.BinOp, st *state, r string, cond string, a, b Val) {
	if a.IsConst && b.IsConst {
		return
	}
	f.u.oblige(f, st, "arith", f.ordLabel(x, "arith"), x.Pos(), cond)
}

func (f *Frame) slice(x *ssa.Slice, st *state) {
	u := f.u
	base := f.val(x.X)
	var lo, hi, max string
	if x.Low != nil {
		lo = f.intIndex(x.Low)
	} else {
		lo = "0"
	}
	switch t := x.X.Type().Underlying().(type) {
	case *types.Slice:
		p, n, c := base.S[0], base.S[1], base.S[2]
		if x.High != nil {
			hi = f.intIndex(x.High)
		} else {
			hi = n
		}
		if x.Max != nil {
			max = f.intIndex(x.Max)
		} else {
			max = c
		}
		cond := and(le("0", lo), le(lo, hi), le(hi, max), le(max, c))
		u.oblige(f, st, "bounds", f.ordLabel(x, "bounds"), x.Pos(), cond)
		if x.High != nil {
			// reading beyond len (but within cap) is legal Go and still an over-read of the input
			u.oblige(f, st, "overread", f.ordLabel(x, "overread"), x.Pos(), le(hi, n))
		}
		stride := elemStride(t.Elem())
		f.bind(x, Val{S: []string{add(p, mul(lo, intLit(int64(stride)))), sub(hi, lo), sub(max, lo)}})
	case *types.Basic: // string
		p, n := base.S[0], base.S[1]
		if x.High != nil {
			hi = f.intIndex(x.High)
		} else {
			hi = n
		}
		u.oblige(f, st, "bounds", f.ordLabel(x, "bounds"), x.Pos(), and(le("0", lo), le(lo, hi), le(hi, n)))
		f.bind(x, Val{S: []string{add(p, lo), sub(hi, lo)}})
	case *types.Pointer: // *array
		arr := t.Elem().Underlying().(*types.Array)
		n := intLit(arr.Len())
		if x.High != nil {
			hi = f.intIndex(x.High)
		} else {
			hi = n
		}
		if x.Max != nil {
			max = f.intIndex(x.Max)
		} else {
			max = n
		}
		u.oblige(f, st, "nil", f.ordLabel(x, "nil"), x.Pos(), or(not(eq(base.S[0], "0")), eq(n, "0")))
		u.oblige(f, st, "bounds", f.ordLabel(x, "bounds"), x.Pos(), and(le("0", lo), le(lo, hi), le(hi, max), le(max, n)))
		stride := elemStride(arr.Elem())
		f.bind(x, Val{S: []string{add(base.S[0], mul(lo, intLit(int64(stride)))), sub(hi, lo), sub(max, lo)}})
	default:
		unsupportedf("slice of %s", x.X.Type())
	}
}

func (f *Frame) convert(x *ssa.Convert, st *state) {
	u := f.u
	v := f.val(x.X)
	from, to := x.X.Type(), x.Type()
	fb, fok := from.Underlying().(*types.Basic)
	tb, tok := to.Underlying().(*types.Basic)
	switch {
	case fok && tok && fb.Info()&types.IsInteger != 0 && tb.Info()&types.IsInteger != 0:
		f.bind(x, Val{S: []string{convInt(v.S[0], from, to)}, IsConst: v.IsConst})
	case tok && tb.Info()&types.IsString != 0 && isByteSlice(from):
		f.bind(x, u.bytesToString(st, v, to))
	case fok && fb.Info()&types.IsString != 0 && isByteSlice(to):
		f.bind(x, u.stringToBytes(st, v, to))
	case fok && tok && fb.Kind() == types.UnsafePointer || tok && tb.Kind() == types.UnsafePointer:
		f.unsupported(st, x, "unsafe conversion")
		f.bindHavoc(x, st)
	default:
		f.unsupported(st, x, fmt.Sprintf("convert %s -> %s", from, to))
		f.bindHavoc(x, st)
	}
}

func isByteSlice(t types.Type) bool {
	s, ok := t.Underlying().(*types.Slice)
	if !ok {
		return false
	}
	b, ok := s.Elem().Underlying().(*types.Basic)
	return ok && b.Kind() == types.Uint8
}

func convInt(term string, from, to types.Type) string {
	fInt, tInt := isIntSort(from), isIntSort(to)
	if fInt && tInt {
		return term
	}
	if tInt {
		return toInt(term, from)
	}
	tb := to.Underlying().(*types.Basic)
	ts, _ := intSort(tb)
	tw := bvWidth(ts)
	if fInt {
		// int2bv(bv2nat x) with equal width is x
		if strings.HasPrefix(term, "(bv2nat ") {
			inner := term[8 : len(term)-1]
			_ = inner
		}
		return int2bv(term, tw)
	}
	fb := from.Underlying().(*types.Basic)
	fs, _ := intSort(fb)
	fw := bvWidth(fs)
	switch {
	case fw == tw:
		return term
	case fw > tw:
		return app(fmt.Sprintf("(_ extract %d 0)", tw-1), term)
	default:
		if isSigned(from) {
			return app(fmt.Sprintf("(_ sign_extend %d)", tw-fw), term)
		}
		return app(fmt.Sprintf("(_ zero_extend %d)", tw-fw), term)
	}
}

// copyFact: forall a in [dst, dst+n): dstArr[a] = srcArr[src + a - dst]; elsewhere dstArr = baseArr.
func (u *Unit) copyArray(dstSite, sort string, baseArr, srcArr, dst, src, n string) string {
	if k, err := strconv.Atoi(n); err == nil && k >= 0 && k <= 64 {
		// constant small length: explicit stores (quantifier-free)
		arr := baseArr
		for i := 0; i < k; i++ {
			arr = store(arr, add(dst, intLit(int64(i))), sel(srcArr, add(src, intLit(int64(i)))))
		}
		return u.ctx.def("Mc:"+dstSite, SArr(SInt, sort), arr)
	}
	na := u.ctx.freshConst("Mc:"+dstSite, SArr(SInt, sort))
	a := "a!"
	body := ite(and(le(dst, a), lt(a, add(dst, n))), sel(srcArr, add(src, sub(a, dst))), sel(baseArr, a))
	u.ctx.assert("copy", fmt.Sprintf("(forall ((a! Int)) (! (= (select %s a!) %s) :pattern ((select %s a!))))", na, body, na))
	return na
}

func (u *Unit) bytesToString(st *state, v Val, to types.Type) Val {
	n := v.S[1]
	p := u.alloc(st, n)
	src := u.arr(st.mem, "elem.uint8#0", SBV(8))
	base := u.arr(st.mem, strSite, SBV(8))
	u.sortOfSite(strSite, SBV(8))
	u.putArr(st.mem, strSite, u.copyArray(strSite, SBV(8), base, src, p, v.S[0], n))
	return Val{T: to, S: []string{ite(eq(n, "0"), "0", p), n}}
}

func (u *Unit) stringToBytes(st *state, v Val, to types.Type) Val {
	n := v.S[1]
	p := u.alloc(st, n)
	src := u.arr(st.mem, strSite, SBV(8))
	base := u.arr(st.mem, "elem.uint8#0", SBV(8))
	u.sortOfSite("elem.uint8#0", SBV(8))
	u.putArr(st.mem, "elem.uint8#0", u.copyArray("elem.uint8#0", SBV(8), base, src, p, v.S[0], n))
	return Val{T: to, S: []string{p, n, n}}
}

func (f *Frame) makeInterface(x *ssa.MakeInterface, st *state) {
	u := f.u
	v := f.val(x.X)
	tid := u.typeID(x.X.Type())
	var data string
	if len(v.S) == 1 && leavesOf(x.X.Type(), "elem")[0].Sort == SInt {
		data = v.S[0]
	} else if len(v.S) == 0 {
		data = "0"
	} else {
		// box
		p := u.alloc(st, intLit(int64(sizeOf(x.X.Type()))))
		u.store(st, p, x.X.Type(), "elem", v)
		data = p
	}
	vv := v
	f.bind(x, Val{S: []string{intLit(int64(tid)), data}, DynT: x.X.Type(), DynV: &vv})
}

func (u *Unit) typeID(t types.Type) int {
	k := types.TypeString(t, nil)
	if id, ok := u.typeIDs[k]; ok {
		return id
	}
	id := len(u.typeIDs) + 1
	u.typeIDs[k] = id
	return id
}

func (f *Frame) makeSlice(x *ssa.MakeSlice, st *state) {
	u := f.u
	n := f.intIndex(x.Len)
	c := f.intIndex(x.Cap)
	elem := x.Type().Underlying().(*types.Slice).Elem()
	stride := elemStride(elem)
	u.oblige(f, st, "makeslice", f.ordLabel(x, "makeslice"), x.Pos(), and(le("0", n), le(n, c), le(c, "281474976710656")))
	p := u.alloc(st, add(mul(c, intLit(int64(stride))), "1"))
	// zero fill [p, p+c*stride)
	u.zeroFill(st, elem, p, mul(c, intLit(int64(stride))))
	f.bind(x, Val{S: []string{p, n, c}})
}

// zeroFill sets every leaf of elements of type elem in [p, p+n) to zero.
func (u *Unit) zeroFill(st *state, elem types.Type, p, n string) {
	ls := leavesOf(elem, "elem")
	seen := map[string]bool{}
	for _, l := range ls {
		if seen[l.Site] {
			continue
		}
		seen[l.Site] = true
		base := u.arr(st.mem, l.Site, l.Sort)
		na := u.ctx.freshConst("Mz:"+l.Site, SArr(SInt, l.Sort))
		body := ite(and(le(p, "a!"), lt("a!", add(p, n))), zeroOf(l.Sort), sel(base, "a!"))
		u.ctx.assert("zerofill", fmt.Sprintf("(forall ((a! Int)) (! (= (select %s a!) %s) :pattern ((select %s a!))))", na, body, na))
		u.sortOfSite(l.Site, l.Sort)
		u.putArr(st.mem, l.Site, na)
	}
}

func (f *Frame) typeAssert(x *ssa.TypeAssert, st *state) {
	u := f.u
	v := f.val(x.X)
	if _, isIface := x.AssertedType.Underlying().(*types.Interface); isIface {
		f.unsupported(st, x, "type assertion to interface")
		f.bindHavoc(x, st)
		return
	}
	tid := intLit(int64(u.typeID(x.AssertedType)))
	ok := eq(v.S[0], tid)
	var payload Val
	ls := leavesOf(x.AssertedType, "elem")
	if len(ls) == 1 && ls[0].Sort == SInt {
		payload = Val{T: x.AssertedType, S: []string{v.S[1]}}
	} else if len(ls) == 0 {
		payload = Val{T: x.AssertedType}
	} else {
		payload = u.load(st, v.S[1], x.AssertedType, "elem", true)
	}
	if x.CommaOk {
		z := u.zeroVal(x.AssertedType)
		out := Val{}
		for i := range payload.S {
			out.S = append(out.S, ite(ok, payload.S[i], z.S[i]))
		}
		out.S = append(out.S, ok)
		f.bind(x, out)
		return
	}
	u.oblige(f, st, "typeassert", f.ordLabel(x, "typeassert"), x.Pos(), ok)
	f.bind(x, payload)
}

// ---------- channels: sequential ghost model ----------
// A channel is an identity with ghost state: the number of values sent on it, the last value sent, and a closed flag.
// Sending records the value (and must not happen on a closed channel: panic); close must not be repeated or applied
// to nil (panic); receiving yields an unknown value. Blocking, buffering, goroutines and select are outside the model:
// contracts over this state describe what one goroutine does to its channels, nothing about schedules.
const (
	chanCountSite  = "chan.$sent"
	chanClosedSite = "chan.$closed"
)

func chanLastSite(elem types.Type, k int) string {
	return fmt.Sprintf("chan.%s.$last#%d", typeKey(elem), k)
}

func (f *Frame) makeChan(x *ssa.MakeChan, st *state) {
	u := f.u
	id := u.alloc(st, "1")
	u.setArr(st.mem, chanCountSite, SInt, store(u.arr(st.mem, chanCountSite, SInt), id, "0"))
	u.setArr(st.mem, chanClosedSite, SBool, store(u.arr(st.mem, chanClosedSite, SBool), id, "false"))
	f.bind(x, Val{S: []string{id}})
}

func (u *Unit) chanRecord(st *state, ch Val, elem types.Type, v Val) {
	cnt := u.arr(st.mem, chanCountSite, SInt)
	u.setArr(st.mem, chanCountSite, SInt, store(cnt, ch.S[0], add(sel(cnt, ch.S[0]), "1")))
	for k, l := range leavesOf(elem, "elem") {
		site := chanLastSite(elem, k)
		u.setArr(st.mem, site, l.Sort, store(u.arr(st.mem, site, l.Sort), ch.S[0], v.S[k]))
	}
}

func (f *Frame) chanSend(x *ssa.Send, st *state) {
	u := f.u
	ch, v := f.val(x.Chan), f.val(x.X)
	elem := x.Chan.Type().Underlying().(*types.Chan).Elem()
	closed := sel(u.arr(st.mem, chanClosedSite, SBool), ch.S[0])
	u.oblige(f, st, "panic", f.ordLabel(x, "send")+" send on closed channel", x.Pos(), or(eq(ch.S[0], "0"), not(closed)))
	u.chanRecord(st, ch, elem, v)
}
