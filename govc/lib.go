package main

import (
	"fmt"
	"go/constant"
	"go/types"
	"strings"

	"golang.org/x/tools/go/ssa"
)

type libModel func(f *Frame, st *state, callee *ssa.Function, args []Val, ins ssa.Instruction, resT types.Type) *Val

var libModels map[string]libModel

const byteSite = "elem.uint8#0"

func init() {
	libModels = map[string]libModel{
		"(encoding/binary.bigEndian).Uint16":       beUint(2),
		"(encoding/binary.bigEndian).Uint32":       beUint(4),
		"(encoding/binary.bigEndian).Uint64":       beUint(8),
		"(encoding/binary.bigEndian).PutUint16":    bePut(2),
		"(encoding/binary.bigEndian).PutUint32":    bePut(4),
		"(encoding/binary.bigEndian).PutUint64":    bePut(8),
		"(encoding/binary.bigEndian).AppendUint16": beAppend(2),
		"(encoding/binary.bigEndian).AppendUint32": beAppend(4),
		"(encoding/binary.bigEndian).AppendUint64": beAppend(8),
		"(encoding/binary.littleEndian).Uint16":       leUint(2),
		"(encoding/binary.littleEndian).Uint32":       leUint(4),
		"(encoding/binary.littleEndian).Uint64":       leUint(8),
		"(encoding/binary.littleEndian).PutUint16":    lePut(2),
		"(encoding/binary.littleEndian).PutUint32":    lePut(4),
		"(encoding/binary.littleEndian).PutUint64":    lePut(8),
		"(encoding/binary.littleEndian).AppendUint16": leAppend(2),
		"(encoding/binary.littleEndian).AppendUint32": leAppend(4),
		"(encoding/binary.littleEndian).AppendUint64": leAppend(8),
		"(*bytes.Buffer).Write":                    bufWrite,
		"(*bytes.Buffer).WriteByte":                bufWriteByte,
		"(*bytes.Buffer).WriteString":              bufWriteString,
		"(*bytes.Buffer).Bytes":                    bufBytes,
		"(*bytes.Buffer).Len":                      bufLen,
		"(*bytes.Buffer).Grow":                     bufGrow,
		"bytes.NewBuffer":                          bytesNewBuffer,
		"bytes.ContainsRune":                       bytesContainsRune,
		"bytes.IndexByte":                          bytesIndexByte,
		"bytes.IndexFunc":                          bytesIndexFunc,
		"bytes.Contains":                           bytesContains,
		"bytes.HasPrefix":                          bytesHasPrefix,
		"bytes.Equal":                              bytesEqual,
		"bytes.Trim":                               bytesTrimLike,
		"bytes.TrimRight":                          bytesTrimLike,
		"bytes.TrimLeft":                           bytesTrimLike,
		"bytes.TrimSpace":                          bytesTrimLike,
		"bytes.Clone":                              bytesClone,
		"fmt.Sprintf":                              fmtSprintf,
		"fmt.Sprint":                               pureFreshString,
		"fmt.Sprintln":                             pureFreshString,
		"fmt.Println":                              pureHavoc,
		"(*sync.Once).Do":                          syncOnceDo,
		// file-system effects are outside the memory model: the calls return arbitrary results and touch no Go memory;
		// what is written where is specified at the call sites (precall clauses)
		"os.MkdirAll":                              pureHavoc,
		"os.WriteFile":                             pureHavoc,
		"(*os.File).WriteString":                   pureHavoc,
		"(*os.File).Sync":                          pureHavoc,
		"fmt.Printf":                               pureHavoc,
		"fmt.Errorf":                               fmtErrorf,
		"errors.New":                               errorsNew,
		"errors.Join":                              errorsJoin,
		"errors.Is":                                errorsIs,
		"strings.Join":                             pureFreshString,
		"strings.ReplaceAll":                       pureFreshString,
		"strings.Replace":                          pureFreshString,
		"strings.Repeat":                           pureFreshString,
		"strings.TrimRight":                        pureFreshString,
		"strings.TrimLeft":                         pureFreshString,
		"strings.TrimSpace":                        pureFreshString,
		"strings.Trim":                             pureFreshString,
		"strings.ToUpper":                          pureFreshString,
		"strings.ToLower":                          pureFreshString,
		"strings.Contains":                         pureHavoc,
		"strings.ContainsAny":                      stringsContainsAny,
		"strings.HasPrefix":                        pureHavoc,
		"strings.HasSuffix":                        pureHavoc,
		"strings.Index":                            pureHavoc,
		"strconv.Itoa":                             pureFreshString,
		"strconv.FormatInt":                        pureFreshString,
		"strconv.FormatUint":                       pureFreshString,
		"encoding/hex.EncodeToString":              pureFreshString,
		"sort.Strings":                             sortStrings,
		"sort.Slice":                               sortSlice,
		"sort.Ints":                                sortInts,
		"log/slog.Warn":                            pureHavoc,
		"log/slog.Info":                            pureHavoc,
		"log/slog.Error":                           pureHavoc,
		"log/slog.Debug":                           pureHavoc,
		"log/slog.Any":                             pureHavoc,
		"log/slog.String":                          pureHavoc,
		"log/slog.Int":                             pureHavoc,
		"log/slog.Bool":                            pureHavoc,
		"log/slog.Uint64":                          pureHavoc,
		"log/slog.Int64":                           pureHavoc,
		"log/slog.Duration":                        pureHavoc,
		"time.Now":                                 timeNow,
		"(time.Time).Add":                          timeAdd,
		"(time.Time).After":                        timeAfter,
		"(time.Time).Before":                       timeBefore,
		"(time.Time).Sub":                          pureHavoc,
		"(time.Time).Format":                       pureFreshString,
		"(time.Time).Unix":                         pureHavoc,
		"time.Since":                               pureHavoc,
		"(time.Duration).String":                   pureFreshString,
		modRoot + "/protocol/utils.GBK2UTF8":       gbkConv,
		modRoot + "/protocol/utils.UTF82GBK":       gbkConv,
	}
}

func need(f *Frame, st *state, ins ssa.Instruction, what string, cond string) {
	f.u.oblige(f, st, "pre", f.ordLabel(ins, "call")+" "+what, ins.Pos(), cond)
}

func beUint(n int) libModel { return endianUint(n, false) }
func leUint(n int) libModel { return endianUint(n, true) }

func endianUint(n int, little bool) libModel {
	return func(f *Frame, st *state, callee *ssa.Function, args []Val, ins ssa.Instruction, resT types.Type) *Val {
		b := args[len(args)-1]
		need(f, st, ins, fmt.Sprintf("BigEndian.Uint%d:len", n*8), le(intLit(int64(n)), b.S[1]))
		arr := f.u.arr(st.mem, byteSite, SBV(8))
		var parts []string
		for i := 0; i < n; i++ {
			k := i
			if little {
				k = n - 1 - i
			}
			parts = append(parts, sel(arr, add(b.S[0], intLit(int64(k)))))
		}
		return &Val{T: resT, S: []string{app("concat", parts...)}}
	}
}

func bePut(n int) libModel { return endianPut(n, false) }
func lePut(n int) libModel { return endianPut(n, true) }

func endianPut(n int, little bool) libModel {
	return func(f *Frame, st *state, callee *ssa.Function, args []Val, ins ssa.Instruction, resT types.Type) *Val {
		b, v := args[len(args)-2], args[len(args)-1]
		need(f, st, ins, fmt.Sprintf("BigEndian.PutUint%d:len", n*8), le(intLit(int64(n)), b.S[1]))
		arr := f.u.arr(st.mem, byteSite, SBV(8))
		for i := 0; i < n; i++ {
			hi := (n-i)*8 - 1
			k := i
			if little {
				k = n - 1 - i
			}
			arr = store(arr, add(b.S[0], intLit(int64(k))), app(fmt.Sprintf("(_ extract %d %d)", hi, hi-7), v.S[0]))
		}
		f.u.setArr(st.mem, byteSite, SBV(8), arr)
		return nil
	}
}

// tempBytes allocates a scratch byte array holding the given byte terms.
func (u *Unit) tempBytes(st *state, bs []string) Val {
	p := u.alloc(st, intLit(int64(len(bs))))
	arr := u.arr(st.mem, byteSite, SBV(8))
	for i, b := range bs {
		arr = store(arr, add(p, intLit(int64(i))), b)
	}
	u.setArr(st.mem, byteSite, SBV(8), arr)
	n := intLit(int64(len(bs)))
	return Val{T: types.NewSlice(types.Typ[types.Uint8]), S: []string{p, n, n}}
}

func beAppend(n int) libModel { return endianAppend(n, false) }
func leAppend(n int) libModel { return endianAppend(n, true) }

func endianAppend(n int, little bool) libModel {
	return func(f *Frame, st *state, callee *ssa.Function, args []Val, ins ssa.Instruction, resT types.Type) *Val {
		b, v := args[len(args)-2], args[len(args)-1]
		var bs []string
		for i := 0; i < n; i++ {
			hi := (n-i)*8 - 1
			if little {
				hi = (i+1)*8 - 1
			}
			bs = append(bs, app(fmt.Sprintf("(_ extract %d %d)", hi, hi-7), v.S[0]))
		}
		tmp := f.u.tempBytes(st, bs)
		r := f.u.appendSlice(f, st, ins, resT, b, tmp, resT)
		return &r
	}
}

// ---- bytes.Buffer: value-semantics model ----
// The content of a Buffer is a ghost sequence (length + array value) indexed by the buffer's address. Write* extend
// the sequence; Bytes() copies it into fresh storage and freezes the buffer: a later Write on a frozen buffer is an
// unsupported construct (the real Buffer may then alias the returned slice, which this model does not represent).

const (
	bufLenSite  = "bytes.Buffer.$len"
	bufDataSite = "bytes.Buffer.$data"
	bufFrozSite = "bytes.Buffer.$frozen"
)

var bufDataSort = SArr(SInt, SBV(8))

func (u *Unit) bufInit(st *state, p string) {
	u.setArr(st.mem, bufLenSite, SInt, store(u.arr(st.mem, bufLenSite, SInt), p, "0"))
	u.setArr(st.mem, bufFrozSite, SBool, store(u.arr(st.mem, bufFrozSite, SBool), p, "false"))
}

func isBytesBuffer(t types.Type) bool {
	n, ok := types.Unalias(t).(*types.Named)
	return ok && n.Obj().Pkg() != nil && n.Obj().Pkg().Path() == "bytes" && n.Obj().Name() == "Buffer"
}

func (u *Unit) bufState(f *Frame, st *state, recv Val, ins ssa.Instruction, writing bool) (L, D string) {
	need(f, st, ins, "Buffer:nonnil", not(eq(recv.S[0], "0")))
	if writing {
		fr := sel(u.arr(st.mem, bufFrozSite, SBool), recv.S[0])
		u.oblige(f, st, "unsupported", f.ordLabel(ins, "unsupported")+" Buffer written after Bytes()", ins.Pos(), not(fr))
	}
	L = u.ctx.def("buflen", SInt, sel(u.arr(st.mem, bufLenSite, SInt), recv.S[0]))
	D = u.ctx.def("bufdata", bufDataSort, sel(u.arr(st.mem, bufDataSite, bufDataSort), recv.S[0]))
	u.ctx.assert("typing", implies(st.reach, le("0", L)))
	return
}

// bufAppend appends n bytes read from array src at address q.
func (u *Unit) bufAppend(st *state, recv Val, L, D, src, q, n string) {
	var nd string
	if k, ok := litInt(n); ok && k.Sign() >= 0 && k.Int64() <= 64 {
		nd = D
		for i := int64(0); i < k.Int64(); i++ {
			nd = store(nd, add(L, intLit(i)), sel(src, add(q, intLit(i))))
		}
		nd = u.ctx.def("bufdata", bufDataSort, nd)
	} else {
		nd = u.ctx.freshConst("bufdata", bufDataSort)
		body := ite(and(le(L, "j!"), lt("j!", add(L, n))), sel(src, add(q, sub("j!", L))), sel(D, "j!"))
		u.ctx.assert("buf", fmt.Sprintf("(forall ((j! Int)) (! (= (select %s j!) %s) :pattern ((select %s j!))))", nd, body, nd))
	}
	u.setArr(st.mem, bufDataSite, bufDataSort, store(u.arr(st.mem, bufDataSite, bufDataSort), recv.S[0], nd))
	u.setArr(st.mem, bufLenSite, SInt, store(u.arr(st.mem, bufLenSite, SInt), recv.S[0], add(L, n)))
}

func bufWrite(f *Frame, st *state, callee *ssa.Function, args []Val, ins ssa.Instruction, resT types.Type) *Val {
	u := f.u
	L, D := u.bufState(f, st, args[0], ins, true)
	u.bufAppend(st, args[0], L, D, u.arr(st.mem, byteSite, SBV(8)), args[1].S[0], args[1].S[1])
	return &Val{T: resT, S: []string{args[1].S[1], "0", "0"}}
}

func bufWriteString(f *Frame, st *state, callee *ssa.Function, args []Val, ins ssa.Instruction, resT types.Type) *Val {
	u := f.u
	L, D := u.bufState(f, st, args[0], ins, true)
	u.bufAppend(st, args[0], L, D, u.arr(st.mem, strSite, SBV(8)), args[1].S[0], args[1].S[1])
	return &Val{T: resT, S: []string{args[1].S[1], "0", "0"}}
}

func bufWriteByte(f *Frame, st *state, callee *ssa.Function, args []Val, ins ssa.Instruction, resT types.Type) *Val {
	u := f.u
	L, D := u.bufState(f, st, args[0], ins, true)
	nd := u.ctx.def("bufdata", bufDataSort, store(D, L, args[1].S[0]))
	u.setArr(st.mem, bufDataSite, bufDataSort, store(u.arr(st.mem, bufDataSite, bufDataSort), args[0].S[0], nd))
	u.setArr(st.mem, bufLenSite, SInt, store(u.arr(st.mem, bufLenSite, SInt), args[0].S[0], add(L, "1")))
	return &Val{T: resT, S: []string{"0", "0"}}
}

func bufBytes(f *Frame, st *state, callee *ssa.Function, args []Val, ins ssa.Instruction, resT types.Type) *Val {
	u := f.u
	L, D := u.bufState(f, st, args[0], ins, false)
	// capacity of the returned slice is unknown (>= len)
	c := u.ctx.freshConst("bufcap", SInt)
	u.ctx.assert("buf", and(le(L, c), le(c, "281474976710656")))
	p := u.alloc(st, add(c, "1"))
	old := u.arr(st.mem, byteSite, SBV(8))
	na := u.ctx.freshConst("Mb:"+byteSite, SArr(SInt, SBV(8)))
	body := ite(and(le(p, "a!"), lt("a!", add(p, L))), sel(D, sub("a!", p)), sel(old, "a!"))
	u.ctx.assert("buf", fmt.Sprintf("(forall ((a! Int)) (! (= (select %s a!) %s) :pattern ((select %s a!))))", na, body, na))
	u.sortOfSite(byteSite, SBV(8))
	u.putArr(st.mem, byteSite, na)
	u.setArr(st.mem, bufFrozSite, SBool, store(u.arr(st.mem, bufFrozSite, SBool), args[0].S[0], "true"))
	// an empty Buffer returns a nil slice (b.buf[b.off:] of a nil buf)
	return &Val{T: resT, S: []string{ite(eq(L, "0"), "0", p), L, ite(eq(L, "0"), "0", c)}}
}

// Grow changes only the capacity: the ghost content and length stay; a negative count panics.
func bufGrow(f *Frame, st *state, callee *ssa.Function, args []Val, ins ssa.Instruction, resT types.Type) *Val {
	u := f.u
	u.bufState(f, st, args[0], ins, true)
	u.oblige(f, st, "panic", f.ordLabel(ins, "call")+" bytes.Buffer.Grow: negative count", ins.Pos(), le("0", args[1].S[0]))
	return nil
}

func bufLen(f *Frame, st *state, callee *ssa.Function, args []Val, ins ssa.Instruction, resT types.Type) *Val {
	L, _ := f.u.bufState(f, st, args[0], ins, false)
	return &Val{T: resT, S: []string{L}}
}

func bytesNewBuffer(f *Frame, st *state, callee *ssa.Function, args []Val, ins ssa.Instruction, resT types.Type) *Val {
	u := f.u
	bt := resT.(*types.Pointer).Elem()
	p := u.allocZero(st, bt)
	recv := Val{T: resT, S: []string{p}}
	u.bufAppend(st, recv, "0", u.ctx.freshConst("bufdata", bufDataSort), u.arr(st.mem, byteSite, SBV(8)), args[0].S[0], args[0].S[1])
	return &recv
}

// ---- bytes helpers ----

func quantRange(u *Unit, lo, hi string, body func(i string) string) string {
	return fmt.Sprintf("(forall ((i! Int)) (=> (and (<= %s i!) (< i! %s)) %s))", lo, hi, body("i!"))
}

func bytesContainsRune(f *Frame, st *state, callee *ssa.Function, args []Val, ins ssa.Instruction, resT types.Type) *Val {
	u := f.u
	b, r := args[0], args[1]
	// precise for ASCII runes: contains iff some byte equals the rune
	c, ok := constInt(ins, 1)
	if !ok || c < 0 || c >= 0x80 {
		return pureHavoc(f, st, callee, args, ins, resT)
	}
	_ = r
	arr := u.arr(st.mem, byteSite, SBV(8))
	res := u.ctx.freshConst("contains", SBool)
	w := u.ctx.freshConst("cw", SInt)
	bv := bvLitU(uint64(c), 8)
	u.ctx.assert("lib:ContainsRune", implies(res, and(le("0", w), lt(w, b.S[1]), eq(sel(arr, add(b.S[0], w)), bv))))
	u.ctx.assert("lib:ContainsRune", implies(not(res), quantRange(u, "0", b.S[1], func(i string) string { return not(eq(sel(arr, add(b.S[0], i)), bv)) })))
	return &Val{T: resT, S: []string{res}}
}

// stringsContainsAny is precise when the character set is a constant ASCII string: the result is true exactly when some
// byte of s equals one of the characters (for ASCII characters byte and rune comparison coincide, because the bytes of
// multi-byte UTF-8 sequences are all >= 0x80).
func stringsContainsAny(f *Frame, st *state, callee *ssa.Function, args []Val, ins ssa.Instruction, resT types.Type) *Val {
	u := f.u
	s, chars := args[0], args[1]
	if chars.ConstS == nil || len(*chars.ConstS) == 0 || len(*chars.ConstS) > 16 {
		return pureHavoc(f, st, callee, args, ins, resT)
	}
	for i := 0; i < len(*chars.ConstS); i++ {
		if (*chars.ConstS)[i] >= 0x80 {
			return pureHavoc(f, st, callee, args, ins, resT)
		}
	}
	arr := u.arr(st.mem, strSite, SBV(8))
	isOne := func(b string) string {
		var alts []string
		for i := 0; i < len(*chars.ConstS); i++ {
			alts = append(alts, eq(b, bvLitU(uint64((*chars.ConstS)[i]), 8)))
		}
		return or(alts...)
	}
	res := u.ctx.freshConst("containsany", SBool)
	w := u.ctx.freshConst("caw", SInt)
	u.ctx.assert("lib:ContainsAny", implies(res, and(le("0", w), lt(w, s.S[1]), isOne(sel(arr, add(s.S[0], w))))))
	// quantified over addresses so that any read of the string triggers the instantiation
	u.ctx.assert("lib:ContainsAny", implies(not(res), fmt.Sprintf("(forall ((a! Int)) (! (=> (and (<= %s a!) (< a! (+ %s %s))) (not %s)) :pattern ((select %s a!))))", s.S[0], s.S[0], s.S[1], isOne(sel(arr, "a!")), arr)))
	return &Val{T: resT, S: []string{res}}
}

func constInt(ins ssa.Instruction, argIdx int) (int64, bool) {
	call, ok := ins.(*ssa.Call)
	if !ok {
		return 0, false
	}
	args := call.Call.Args
	if argIdx >= len(args) {
		return 0, false
	}
	c, ok := args[argIdx].(*ssa.Const)
	if !ok || c.Value == nil || c.Value.Kind() != constant.Int {
		return 0, false
	}
	return c.Int64(), true
}

func bytesIndexByte(f *Frame, st *state, callee *ssa.Function, args []Val, ins ssa.Instruction, resT types.Type) *Val {
	u := f.u
	b, c := args[0], args[1]
	arr := u.arr(st.mem, byteSite, SBV(8))
	r := u.ctx.freshConst("idx", SInt)
	notFound := and(eq(r, "(- 1)"), quantRange(u, "0", b.S[1], func(i string) string { return not(eq(sel(arr, add(b.S[0], i)), c.S[0])) }))
	found := and(le("0", r), lt(r, b.S[1]), eq(sel(arr, add(b.S[0], r)), c.S[0]),
		quantRange(u, "0", r, func(i string) string { return not(eq(sel(arr, add(b.S[0], i)), c.S[0])) }))
	u.ctx.assert("lib:IndexByte", or(notFound, found))
	return &Val{T: resT, S: []string{r}}
}

// bytesIndexFunc: bytewise model, valid when every byte is ASCII (obligation) and the predicate is a pure closure.
func bytesIndexFunc(f *Frame, st *state, callee *ssa.Function, args []Val, ins ssa.Instruction, resT types.Type) *Val {
	u := f.u
	b, fn := args[0], args[1]
	if fn.Fn == nil || len(fn.Fn.Blocks) == 0 {
		return f.abstractCall(st, nil, ins, resT, "bytes.IndexFunc with unknown predicate")
	}
	if !isPureSmall(fn.Fn) {
		return indexFuncStateful(f, st, b, fn, ins, resT)
	}
	arr := u.arr(st.mem, byteSite, SBV(8))
	if !comparesWithASCIIConst(fn.Fn) {
		need(f, st, ins, "IndexFunc:ascii", quantRange(u, "0", b.S[1], func(i string) string {
			return app("bvult", sel(arr, add(b.S[0], i)), bvLitU(0x80, 8))
		}))
	}
	pred := func(byteTerm string) string {
		r := app("(_ zero_extend 24)", byteTerm)
		return u.evalPureClosure(f, st, fn, []Val{{T: types.Typ[types.Rune], S: []string{r}}})
	}
	r := u.ctx.freshConst("idx", SInt)
	notFound := and(eq(r, "(- 1)"), quantRange(u, "0", b.S[1], func(i string) string { return not(pred(sel(arr, add(b.S[0], i)))) }))
	found := and(le("0", r), lt(r, b.S[1]), pred(sel(arr, add(b.S[0], r))),
		quantRange(u, "0", r, func(i string) string { return not(pred(sel(arr, add(b.S[0], i)))) }))
	u.ctx.assert("lib:IndexFunc", or(notFound, found))
	return &Val{T: resT, S: []string{r}}
}

// comparesWithASCIIConst: the predicate is exactly "r == C" or "r != C" with C < 0x80. A byte < 0x80 is never part of a
// multi-byte UTF-8 sequence, and every other rune (decoded or RuneError) differs from C, so IndexFunc returns the first byte
// index at which the bytewise predicate holds, whatever the other bytes are.
func comparesWithASCIIConst(fn *ssa.Function) bool {
	if len(fn.Blocks) != 1 || len(fn.Params) != 1 {
		return false
	}
	var cmp *ssa.BinOp
	for _, ins := range fn.Blocks[0].Instrs {
		switch x := ins.(type) {
		case *ssa.DebugRef:
		case *ssa.BinOp:
			if cmp != nil {
				return false
			}
			cmp = x
		case *ssa.Return:
			if cmp == nil || len(x.Results) != 1 || x.Results[0] != cmp {
				return false
			}
		default:
			return false
		}
	}
	if cmp == nil || (cmp.Op.String() != "==" && cmp.Op.String() != "!=") || cmp.X != fn.Params[0] {
		return false
	}
	c, ok := cmp.Y.(*ssa.Const)
	return ok && c.Value != nil && c.Int64() >= 0 && c.Int64() < 0x80
}

// isPureSmall: single-return closure without stores, calls or free-variable writes.
func isPureSmall(fn *ssa.Function) bool {
	for _, b := range fn.Blocks {
		for _, ins := range b.Instrs {
			switch ins.(type) {
			case *ssa.Store, *ssa.Call, *ssa.MapUpdate, *ssa.Alloc, *ssa.Go, *ssa.Defer, *ssa.Send:
				return false
			}
		}
	}
	return true
}

// evalPureClosure symbolically evaluates a pure closure to a Bool term; quantified variables may occur in args.
func (u *Unit) evalPureClosure(f *Frame, st *state, fn Val, args []Val) string {
	cf := u.newFrame(fn.Fn, f.chain+"▸"+funcKey(fn.Fn))
	// pure evaluation: do not name subterms (they may contain bound variables)
	sub := &Frame{u: u, fn: fn.Fn, key: cf.key, prefix: cf.prefix, chain: cf.chain, vals: map[ssa.Value]Val{}, outs: cf.outs, loops: cf.loops, backSrc: cf.backSrc, ords: cf.ords}
	sub.free = fn.Binds
	return sub.pureEval(st, args)
}

func (f *Frame) pureEval(st *state, args []Val) string {
	fn := f.fn
	for i, p := range fn.Params {
		f.vals[p] = args[i]
	}
	if len(fn.Blocks) != 1 {
		// small CFGs: evaluate by recursive descent over blocks without loops
		return f.pureBlock(fn.Blocks[0], st, 0)
	}
	return f.pureBlock(fn.Blocks[0], st, 0)
}

func (f *Frame) pureBlock(b *ssa.BasicBlock, st *state, depth int) string {
	if depth > 32 {
		unsupportedf("pure closure too deep")
	}
	for _, ins := range b.Instrs {
		switch x := ins.(type) {
		case *ssa.DebugRef:
		case *ssa.BinOp:
			f.pureBinop(x)
		case *ssa.UnOp:
			v := f.val(x.X)
			if x.Op.String() == "!" {
				f.vals[x] = Val{T: x.Type(), S: []string{not(v.S[0])}}
			} else if x.Op.String() == "*" {
				// load of a captured variable
				elem := x.X.Type().Underlying().(*types.Pointer).Elem()
				save := f.u.noAssume
				f.u.noAssume = true
				f.vals[x] = f.u.load(st, v.S[0], elem, v.Hint, false)
				f.u.noAssume = save
			} else {
				unsupportedf("pure closure unop %s", x.Op)
			}
		case *ssa.IndexAddr:
			base := f.val(x.X)
			idx := f.val(x.Index)
			it := toInt(idx.S[0], x.Index.Type())
			switch t := x.X.Type().Underlying().(type) {
			case *types.Slice:
				f.vals[x] = Val{T: x.Type(), S: []string{add(base.S[0], mul(it, intLit(int64(elemStride(t.Elem())))))}}
			default:
				unsupportedf("pure closure IndexAddr on %s", x.X.Type())
			}
		case *ssa.FieldAddr:
			base := f.val(x.X)
			st0 := x.X.Type().Underlying().(*types.Pointer).Elem()
			off, _, _ := fieldOffset(st0, x.Field)
			f.vals[x] = Val{T: x.Type(), S: []string{add(base.S[0], intLit(int64(off)))}, Hint: fieldHint(st0, x.Field)}
		case *ssa.Convert:
			v := f.val(x.X)
			f.vals[x] = Val{T: x.Type(), S: []string{convInt(v.S[0], x.X.Type(), x.Type())}}
		case *ssa.ChangeType:
			v := f.val(x.X)
			f.vals[x] = Val{T: x.Type(), S: v.S}
		case *ssa.Return:
			return f.val(x.Results[0]).S[0]
		case *ssa.If:
			c := f.val(x.Cond).S[0]
			return ite(c, f.pureBlock(b.Succs[0], st, depth+1), f.pureBlock(b.Succs[1], st, depth+1))
		case *ssa.Jump:
			if len(b.Succs[0].Instrs) > 0 {
				if _, isPhi := b.Succs[0].Instrs[0].(*ssa.Phi); isPhi {
					unsupportedf("pure closure with phi")
				}
			}
			return f.pureBlock(b.Succs[0], st, depth+1)
		default:
			unsupportedf("pure closure instruction %T", ins)
		}
	}
	unsupportedf("pure closure without return")
	return ""
}

func (f *Frame) pureBinop(x *ssa.BinOp) {
	// reuse the normal encoder on a scratch state without obligations for comparison operators
	a, b := f.val(x.X), f.val(x.Y)
	t := x.X.Type()
	var r string
	A, B := a.S[0], b.S[0]
	if isIntSort(t) {
		switch x.Op.String() {
		case "==":
			r = eq(A, B)
		case "!=":
			r = not(eq(A, B))
		case "<":
			r = lt(A, B)
		case "<=":
			r = le(A, B)
		case ">":
			r = lt(B, A)
		case ">=":
			r = le(B, A)
		case "+":
			r = add(A, B)
		case "-":
			r = sub(A, B)
		default:
			unsupportedf("pure closure int op %s", x.Op)
		}
	} else if bt, ok := t.Underlying().(*types.Basic); ok && bt.Info()&types.IsBoolean != 0 {
		switch x.Op.String() {
		case "==":
			r = eq(A, B)
		case "!=":
			r = not(eq(A, B))
		default:
			unsupportedf("pure closure bool op %s", x.Op)
		}
	} else {
		signed := isSigned(t)
		pick := func(u, s string) string {
			if signed {
				return s
			}
			return u
		}
		switch x.Op.String() {
		case "==":
			r = eq(A, B)
		case "!=":
			r = not(eq(A, B))
		case "<":
			r = app(pick("bvult", "bvslt"), A, B)
		case "<=":
			r = app(pick("bvule", "bvsle"), A, B)
		case ">":
			r = app(pick("bvugt", "bvsgt"), A, B)
		case ">=":
			r = app(pick("bvuge", "bvsge"), A, B)
		case "&":
			r = app("bvand", A, B)
		case "|":
			r = app("bvor", A, B)
		case "+":
			r = app("bvadd", A, B)
		case "-":
			r = app("bvsub", A, B)
		default:
			unsupportedf("pure closure bv op %s", x.Op)
		}
	}
	f.vals[x] = Val{T: x.Type(), S: []string{r}}
}

// indexFuncStateful models the idiom of service.unpack: a predicate counting occurrences of an ASCII byte
// and returning true at the k-th. It is recognised structurally; anything else is unsupported.
func indexFuncStateful(f *Frame, st *state, b Val, fn Val, ins ssa.Instruction, resT types.Type) *Val {
	u := f.u
	c, k, cell, ok := matchCountingPredicate(fn.Fn)
	if !ok || k != 2 || c >= 0x80 || len(fn.Binds) != 1 {
		return f.abstractCall(st, nil, ins, resT, "bytes.IndexFunc with stateful predicate")
	}
	_ = cell
	// bytes.IndexFunc(s, func(r) { if r == C { cnt++ }; return cnt == 2 }) with cnt == 0 before the call:
	// the byte index of the second occurrence of the ASCII byte C, or -1 (a byte < 0x80 is never part of a multi-byte rune)
	cnt := fn.Binds[0]
	env := &Env{u: u, st: st}
	before := env.loadAt(cnt.S[0], types.Typ[types.Int], "elem")
	need(f, st, ins, "IndexFunc:counter-starts-at-zero", eq(before.S[0], "0"))
	arr := u.arr(st.mem, byteSite, SBV(8))
	cb := bvLitU(uint64(c), 8)
	at := func(i string) string { return eq(sel(arr, add(b.S[0], i)), cb) }
	r := u.ctx.freshConst("idx2", SInt)
	j := u.ctx.freshConst("idx1", SInt)
	found := and(le("0", j), lt(j, r), lt(r, b.S[1]), at(j), at(r),
		fmt.Sprintf("(forall ((m! Int)) (=> (and (<= 0 m!) (< m! %s) (not (= m! %s))) (not %s)))", r, j, at("m!")))
	notFound := and(eq(r, "(- 1)"),
		fmt.Sprintf("(forall ((m! Int) (n! Int)) (=> (and (<= 0 m!) (< m! n!) (< n! %s)) (not (and %s %s))))", b.S[1], at("m!"), at("n!")))
	u.ctx.assert("lib:IndexFunc", implies(st.reach, or(found, notFound)))
	// the counter afterwards: 2 when found, otherwise 0 or 1
	nc := u.ctx.freshConst("cnt", SInt)
	u.ctx.assert("lib:IndexFunc", implies(st.reach, ite(le("0", r), eq(nc, "2"), and(le("0", nc), le(nc, "1")))))
	u.store(st, cnt.S[0], types.Typ[types.Int], "elem", Val{T: types.Typ[types.Int], S: []string{nc}})
	return &Val{T: resT, S: []string{r}}
}

// matchCountingPredicate recognises func(r rune) bool { if r == C { *cnt++ }; return *cnt == K }.
func matchCountingPredicate(fn *ssa.Function) (c int64, k int64, cell *ssa.FreeVar, ok bool) {
	if len(fn.Params) != 1 || len(fn.FreeVars) != 1 {
		return
	}
	cell = fn.FreeVars[0]
	seenCmp, seenInc, seenRet := false, false, false
	for _, b := range fn.Blocks {
		for _, ins := range b.Instrs {
			switch x := ins.(type) {
			case *ssa.BinOp:
				if x.Op.String() == "==" {
					if x.X == fn.Params[0] {
						if cc, isC := x.Y.(*ssa.Const); isC && cc.Value != nil {
							c, seenCmp = cc.Int64(), true
						}
					} else if cc, isC := x.Y.(*ssa.Const); isC && cc.Value != nil {
						if u, isLoad := x.X.(*ssa.UnOp); isLoad && u.X == cell {
							k = cc.Int64()
						}
					}
				} else if x.Op.String() == "+" {
					if cc, isC := x.Y.(*ssa.Const); isC && cc.Value != nil && cc.Int64() == 1 {
						if u, isLoad := x.X.(*ssa.UnOp); isLoad && u.X == cell {
							seenInc = true
						}
					}
				} else {
					return 0, 0, nil, false
				}
			case *ssa.Store:
				if x.Addr != cell {
					return 0, 0, nil, false
				}
			case *ssa.Return:
				seenRet = true
			case *ssa.Call, *ssa.MapUpdate, *ssa.Alloc, *ssa.Go, *ssa.Defer:
				return 0, 0, nil, false
			}
		}
	}
	ok = seenCmp && seenInc && seenRet && k > 0
	return
}

// matchAt: the bytes of needle n occur in b at offset i (n's length must be a small literal for the expanded form).
func matchAt(u *Unit, arr string, b, n Val, i string) (string, bool) {
	k, ok := litInt(n.S[1])
	if !ok || k.Sign() < 0 || k.Int64() > 16 {
		return "", false
	}
	var cs []string
	for j := int64(0); j < k.Int64(); j++ {
		cs = append(cs, eq(sel(arr, add(b.S[0], add(i, intLit(j)))), sel(arr, add(n.S[0], intLit(j)))))
	}
	return and(cs...), true
}

// bytesContains: precise when the needle's length is a small literal (e.g. a composite literal): the result is true
// exactly when the needle occurs at some offset.
func bytesContains(f *Frame, st *state, callee *ssa.Function, args []Val, ins ssa.Instruction, resT types.Type) *Val {
	u := f.u
	b, n := args[0], args[1]
	arr := u.arr(st.mem, byteSite, SBV(8))
	w := u.ctx.freshConst("cw", SInt)
	mw, ok := matchAt(u, arr, b, n, w)
	if !ok {
		return pureHavoc(f, st, callee, args, ins, resT)
	}
	res := u.ctx.freshConst("contains", SBool)
	u.ctx.assert("lib:bytes.Contains", implies(res, and(le("0", w), le(add(w, n.S[1]), b.S[1]), mw)))
	mi, _ := matchAt(u, arr, b, n, "i!")
	u.ctx.assert("lib:bytes.Contains", implies(not(res), fmt.Sprintf("(forall ((i! Int)) (! (=> (and (<= 0 i!) (<= (+ i! %s) %s)) (not %s)) :pattern ((select %s (+ %s i!)))))", n.S[1], b.S[1], mi, arr, b.S[0])))
	return &Val{T: resT, S: []string{res}}
}

// bytesHasPrefix: b starts with the bytes of p.
func bytesHasPrefix(f *Frame, st *state, callee *ssa.Function, args []Val, ins ssa.Instruction, resT types.Type) *Val {
	u := f.u
	b, p := args[0], args[1]
	arr := u.arr(st.mem, byteSite, SBV(8))
	m0, ok := matchAt(u, arr, b, p, "0")
	if !ok {
		res := u.ctx.freshConst("hasprefix", SBool)
		w := u.ctx.freshConst("hpw", SInt)
		u.ctx.assert("lib:bytes.HasPrefix", implies(res, and(le(p.S[1], b.S[1]), quantRange(u, "0", p.S[1], func(i string) string {
			return eq(sel(arr, add(b.S[0], i)), sel(arr, add(p.S[0], i)))
		}))))
		u.ctx.assert("lib:bytes.HasPrefix", implies(not(res), or(lt(b.S[1], p.S[1]), and(le("0", w), lt(w, p.S[1]), not(eq(sel(arr, add(b.S[0], w)), sel(arr, add(p.S[0], w))))))))
		return &Val{T: resT, S: []string{res}}
	}
	return &Val{T: resT, S: []string{u.ctx.def("hasprefix", SBool, and(le(p.S[1], b.S[1]), m0))}}
}

func bytesEqual(f *Frame, st *state, callee *ssa.Function, args []Val, ins ssa.Instruction, resT types.Type) *Val {
	u := f.u
	a, b := args[0], args[1]
	arr := u.arr(st.mem, byteSite, SBV(8))
	e := u.ctx.freshConst("beq", SBool)
	w := u.ctx.freshConst("bw", SInt)
	u.ctx.assert("lib:bytes.Equal", implies(e, and(eq(a.S[1], b.S[1]), quantRange(u, "0", a.S[1], func(i string) string {
		return eq(sel(arr, add(a.S[0], i)), sel(arr, add(b.S[0], i)))
	}))))
	u.ctx.assert("lib:bytes.Equal", implies(not(e), or(not(eq(a.S[1], b.S[1])), and(le("0", w), lt(w, a.S[1]), not(eq(sel(arr, add(a.S[0], w)), sel(arr, add(b.S[0], w))))))))
	return &Val{T: resT, S: []string{e}}
}

// bytes.Trim*: result is a sub-slice of the argument (content model left abstract).
func bytesTrimLike(f *Frame, st *state, callee *ssa.Function, args []Val, ins ssa.Instruction, resT types.Type) *Val {
	u := f.u
	b := args[0]
	lo := u.ctx.freshConst("trimlo", SInt)
	hi := u.ctx.freshConst("trimhi", SInt)
	u.ctx.assert("lib:bytes.Trim", and(le("0", lo), le(lo, hi), le(hi, b.S[1])))
	return &Val{T: resT, S: []string{add(b.S[0], lo), sub(hi, lo), sub(b.S[2], lo)}}
}

func bytesClone(f *Frame, st *state, callee *ssa.Function, args []Val, ins ssa.Instruction, resT types.Type) *Val {
	u := f.u
	b := args[0]
	n := b.S[1]
	p := u.alloc(st, add(n, "1"))
	base := u.arr(st.mem, byteSite, SBV(8))
	u.sortOfSite(byteSite, SBV(8))
	u.putArr(st.mem, byteSite, u.copyArray(byteSite, SBV(8), base, base, p, b.S[0], n))
	isNil := and(eq(b.S[0], "0"), eq(b.S[2], "0"))
	return &Val{T: resT, S: []string{ite(isNil, "0", p), n, ite(isNil, "0", n)}}
}

// ---- generic pure models ----

func pureHavoc(f *Frame, st *state, callee *ssa.Function, args []Val, ins ssa.Instruction, resT types.Type) *Val {
	if resT == nil {
		return nil
	}
	if t, ok := resT.(*types.Tuple); ok && t.Len() == 0 {
		return nil
	}
	return f.u.havocValSafe(f.prefix+".lib", resT, st)
}

func pureFreshString(f *Frame, st *state, callee *ssa.Function, args []Val, ins ssa.Instruction, resT types.Type) *Val {
	v := f.u.freshString(st, resT, f.prefix+".str")
	return &v
}

func gbkConv(f *Frame, st *state, callee *ssa.Function, args []Val, ins ssa.Instruction, resT types.Type) *Val {
	// uninterpreted conversion: fresh byte slice of unknown length and content
	u := f.u
	n := u.ctx.freshConst("gbk.len", SInt)
	u.ctx.assert("lib:gbk", and(le("0", n), le(n, "1099511627776")))
	p := u.alloc(st, add(n, "1"))
	old := u.arr(st.mem, byteSite, SBV(8))
	na := u.ctx.freshConst("Mg", SArr(SInt, SBV(8)))
	u.ctx.assert("lib:gbk", fmt.Sprintf("(forall ((a! Int)) (! (=> (< a! %s) (= (select %s a!) (select %s a!))) :pattern ((select %s a!))))", p, na, old, na))
	u.putArr(st.mem, byteSite, na)
	return &Val{T: resT, S: []string{p, n, n}}
}

func sortStrings(f *Frame, st *state, callee *ssa.Function, args []Val, ins ssa.Instruction, resT types.Type) *Val {
	// permutes the slice: havoc the string headers inside the slice's range
	u := f.u
	s := args[0]
	for k, srt := range []string{SInt, SInt} {
		site := fmt.Sprintf("elem.string#%d", k)
		old := u.arr(st.mem, site, srt)
		na := u.ctx.freshConst("Msort", SArr(SInt, srt))
		u.ctx.assert("lib:sort", fmt.Sprintf("(forall ((a! Int)) (! (=> (or (< a! %s) (>= a! (+ %s (* 2 %s)))) (= (select %s a!) (select %s a!))) :pattern ((select %s a!))))", s.S[0], s.S[0], s.S[1], na, old, na))
		u.sortOfSite(site, srt)
		u.putArr(st.mem, site, na)
	}
	return nil
}

// ---- fmt ----

// varargOperands recovers the operands boxed into a variadic ...any argument.
func varargOperands(v ssa.Value) []ssa.Value {
	sl, ok := v.(*ssa.Slice)
	if !ok {
		return nil
	}
	al, ok := sl.X.(*ssa.Alloc)
	if !ok {
		return nil
	}
	arr, ok := al.Type().(*types.Pointer).Elem().Underlying().(*types.Array)
	if !ok {
		return nil
	}
	out := make([]ssa.Value, arr.Len())
	for _, ref := range *al.Referrers() {
		ia, ok := ref.(*ssa.IndexAddr)
		if !ok {
			continue
		}
		c, ok := ia.Index.(*ssa.Const)
		if !ok {
			continue
		}
		idx := int(c.Int64())
		for _, r2 := range *ia.Referrers() {
			if s, ok := r2.(*ssa.Store); ok && s.Addr == ia {
				if mi, ok := s.Val.(*ssa.MakeInterface); ok {
					out[idx] = mi.X
				} else {
					out[idx] = s.Val
				}
			}
		}
	}
	return out
}

func constString(v ssa.Value) (string, bool) {
	c, ok := v.(*ssa.Const)
	if !ok || c.Value == nil || c.Value.Kind() != constant.String {
		return "", false
	}
	return constant.StringVal(c.Value), true
}

func fmtSprintf(f *Frame, st *state, callee *ssa.Function, args []Val, ins ssa.Instruction, resT types.Type) *Val {
	u := f.u
	call := ins.(*ssa.Call)
	format, ok := constString(call.Call.Args[0])
	if ok {
		var w int
		switch format {
		case "%.32b", "%032b":
			w = 32
		case "%.16b", "%016b":
			w = 16
		case "%.8b", "%08b":
			w = 8
		}
		ops := varargOperands(call.Call.Args[1])
		if w > 0 && len(ops) == 1 && ops[0] != nil {
			if bt, ok := ops[0].Type().Underlying().(*types.Basic); ok && bt.Info()&types.IsUnsigned != 0 {
				srt, _ := intSort(bt)
				if bvWidth(srt) == w {
					x := f.val(ops[0]).S[0]
					p := u.alloc(st, intLit(int64(w)))
					arr := u.arr(st.mem, strSite, SBV(8))
					for i := 0; i < w; i++ {
						bit := app(fmt.Sprintf("(_ extract %d %d)", w-1-i, w-1-i), x)
						arr = store(arr, add(p, intLit(int64(i))), ite(eq(bit, "#b1"), bvLitU('1', 8), bvLitU('0', 8)))
					}
					u.setArr(st.mem, strSite, SBV(8), arr)
					return &Val{T: resT, S: []string{p, intLit(int64(w))}}
				}
			}
		}
	}
	if ok {
		if v := sprintfPercentS(f, st, call, format, resT); v != nil {
			return v
		}
	}
	v := u.freshString(st, resT, f.prefix+".sprintf")
	return &v
}

// sprintfPercentS models formats made of literal text and plain %s verbs applied to string / []byte operands.
func sprintfPercentS(f *Frame, st *state, call *ssa.Call, format string, resT types.Type) *Val {
	u := f.u
	type seg struct {
		lit string
		arg int
	}
	var segs []seg
	nargs := 0
	cur := ""
	for i := 0; i < len(format); i++ {
		c := format[i]
		if c != '%' {
			cur += string(c)
			continue
		}
		if i+1 >= len(format) {
			return nil
		}
		switch format[i+1] {
		case '%':
			cur += "%"
		case 's':
			if cur != "" {
				segs = append(segs, seg{lit: cur, arg: -1})
				cur = ""
			}
			segs = append(segs, seg{arg: nargs})
			nargs++
		default:
			return nil
		}
		i++
	}
	if cur != "" {
		segs = append(segs, seg{lit: cur, arg: -1})
	}
	if nargs == 0 {
		return nil
	}
	ops := varargOperands(call.Call.Args[1])
	if len(ops) != nargs {
		return nil
	}
	for _, op := range ops {
		if op == nil || !(isStringT(op.Type()) || isByteSlice(op.Type())) {
			return nil
		}
	}
	total := "0"
	for _, sg := range segs {
		if sg.arg < 0 {
			total = add(total, intLit(int64(len(sg.lit))))
		} else {
			total = add(total, f.val(ops[sg.arg]).S[1])
		}
	}
	total = u.ctx.def("sprintflen", SInt, total)
	p := u.alloc(st, total)
	off := "0"
	for _, sg := range segs {
		arr := u.arr(st.mem, strSite, SBV(8))
		if sg.arg < 0 {
			for k := 0; k < len(sg.lit); k++ {
				arr = store(arr, add(p, add(off, intLit(int64(k)))), bvLitU(uint64(sg.lit[k]), 8))
			}
			u.setArr(st.mem, strSite, SBV(8), arr)
			off = add(off, intLit(int64(len(sg.lit))))
			continue
		}
		v := f.val(ops[sg.arg])
		srcSite := strSite
		if isByteSlice(ops[sg.arg].Type()) {
			srcSite = byteSite
		}
		src := u.arr(st.mem, srcSite, SBV(8))
		u.sortOfSite(strSite, SBV(8))
		u.putArr(st.mem, strSite, u.copyArray(strSite, SBV(8), arr, src, add(p, off), v.S[0], v.S[1]))
		off = add(off, v.S[1])
	}
	return &Val{T: resT, S: []string{ite(eq(total, "0"), "0", p), total}}
}

// ---- errors ----

const wrapsFn = "err.wraps"

func (u *Unit) ensureWraps() {
	if _, ok := u.ctx.names[wrapsFn]; !ok {
		u.ctx.declareFun(wrapsFn, []string{SInt, SInt}, SBool)
	}
}

func (u *Unit) freshError(st *state, t types.Type, comps []Val) *Val {
	u.ensureWraps()
	idTerm := u.alloc(st, "1")
	id := u.ctx.freshConst("errid", SInt)
	u.ctx.assert("err", eq(id, idTerm))
	for _, c := range comps {
		if !isAtomic(c.S[1]) || strings.HasPrefix(c.S[1], "(") {
			continue
		}
		cid := u.ctx.freshConst("errc", SInt)
		u.ctx.assert("err", eq(cid, c.S[1]))
		c.S = []string{c.S[0], cid}
		// r wraps c and everything c wraps
		u.ctx.assert("err", implies(not(eq(c.S[0], "0")), and(app(wrapsFn, id, c.S[1]),
			fmt.Sprintf("(forall ((z! Int)) (! (=> (%s %s z!) (%s %s z!)) :pattern ((%s %s z!))))", wrapsFn, c.S[1], wrapsFn, id, wrapsFn, c.S[1]))))
	}
	return &Val{T: t, S: []string{intLit(int64(u.typeID(types.NewPointer(types.Typ[types.Invalid])))), id}}
}

func fmtErrorf(f *Frame, st *state, callee *ssa.Function, args []Val, ins ssa.Instruction, resT types.Type) *Val {
	call := ins.(*ssa.Call)
	var comps []Val
	if format, ok := constString(call.Call.Args[0]); ok && strings.Contains(format, "%w") {
		for _, op := range varargOperands(call.Call.Args[1]) {
			if op != nil && types.Identical(op.Type(), types.Universe.Lookup("error").Type()) {
				comps = append(comps, f.val(op))
			}
		}
	}
	return f.u.freshError(st, resT, comps)
}

func errorsNew(f *Frame, st *state, callee *ssa.Function, args []Val, ins ssa.Instruction, resT types.Type) *Val {
	return f.u.freshError(st, resT, nil)
}

func errorsJoin(f *Frame, st *state, callee *ssa.Function, args []Val, ins ssa.Instruction, resT types.Type) *Val {
	call := ins.(*ssa.Call)
	ops := varargOperands(call.Call.Args[0])
	if ops == nil {
		return f.abstractCall(st, nil, ins, resT, "errors.Join with non-literal arguments")
	}
	var comps []Val
	var anyNonNil []string
	for _, op := range ops {
		if op == nil {
			continue
		}
		v := f.val(op)
		comps = append(comps, v)
		anyNonNil = append(anyNonNil, not(eq(v.S[0], "0")))
	}
	r := f.u.freshError(st, resT, comps)
	some := or(anyNonNil...)
	return &Val{T: resT, S: []string{ite(some, r.S[0], "0"), ite(some, r.S[1], "0")}}
}

func errorsIs(f *Frame, st *state, callee *ssa.Function, args []Val, ins ssa.Instruction, resT types.Type) *Val {
	f.u.ensureWraps()
	e, t := args[0], args[1]
	r := and(not(eq(e.S[0], "0")), or(and(eq(e.S[0], t.S[0]), eq(e.S[1], t.S[1])), app(wrapsFn, e.S[1], t.S[1])))
	return &Val{T: resT, S: []string{r}}
}

// ---- time: a Time is modelled by its ext field holding an abstract instant ----

const nowCounter = "time.now"

func timeLeaves(t types.Type) []Leaf { return leavesOf(t, "elem") }

func timeInstantIdx(t types.Type) int {
	st := t.Underlying().(*types.Struct)
	for i := 0; i < st.NumFields(); i++ {
		if st.Field(i).Name() == "ext" {
			_, ls, _ := fieldOffset(t, i)
			return ls
		}
	}
	return 0
}

func timeNow(f *Frame, st *state, callee *ssa.Function, args []Val, ins ssa.Instruction, resT types.Type) *Val {
	u := f.u
	v := u.havocVal(f.prefix+".now", resT, st.mem, st.reach)
	// monotone clock: site "ghost.clock" holds the last instant at address 0
	clk := u.arr(st.mem, "ghost.clock", SBV(64))
	i := timeInstantIdx(resT)
	// the ghost clock itself stays within [0, 2^62] (assumed of the entry state, preserved by every update)
	u.ctx.assert("lib:time.Now", implies(st.reach, and(app("bvsle", bvLitU(0, 64), sel(clk, "0")), app("bvsle", sel(clk, "0"), bvLitU(1<<62, 64)))))
	u.ctx.assert("lib:time.Now", implies(st.reach, app("bvsle", sel(clk, "0"), v.S[i])))
	u.ctx.assert("lib:time.Now", implies(st.reach, app("bvsle", bvLitU(0, 64), v.S[i])))
	u.ctx.assert("lib:time.Now", implies(st.reach, app("bvsle", v.S[i], bvLitU(1<<62, 64))))
	u.setArr(st.mem, "ghost.clock", SBV(64), store(clk, "0", v.S[i]))
	return &v
}

func timeAdd(f *Frame, st *state, callee *ssa.Function, args []Val, ins ssa.Instruction, resT types.Type) *Val {
	t, d := args[0], args[1]
	i := timeInstantIdx(resT)
	out := Val{T: resT, S: append([]string(nil), t.S...)}
	out.S[i] = app("bvadd", t.S[i], d.S[0])
	return &out
}

func timeAfter(f *Frame, st *state, callee *ssa.Function, args []Val, ins ssa.Instruction, resT types.Type) *Val {
	i := timeInstantIdx(args[0].T)
	return &Val{T: resT, S: []string{app("bvsgt", args[0].S[i], args[1].S[i])}}
}

func timeBefore(f *Frame, st *state, callee *ssa.Function, args []Val, ins ssa.Instruction, resT types.Type) *Val {
	i := timeInstantIdx(args[0].T)
	return &Val{T: resT, S: []string{app("bvslt", args[0].S[i], args[1].S[i])}}
}


// sortSlice models sort.Slice(x, less) for a pure comparison closure: afterwards the elements are a rearrangement of the
// old ones (every new element is an old one and vice versa, through two uninterpreted index maps) and ordered:
// for i < j, !less(j, i). Memory outside the slice is unchanged.
func sortSlice(f *Frame, st *state, callee *ssa.Function, args []Val, ins ssa.Instruction, resT types.Type) *Val {
	u := f.u
	call := ins.(*ssa.Call)
	mi, ok := call.Call.Args[0].(*ssa.MakeInterface)
	if !ok {
		return f.abstractCall(st, nil, ins, resT, "sort.Slice on a non-literal argument")
	}
	sl, ok := mi.X.Type().Underlying().(*types.Slice)
	less := args[1]
	if !ok || less.Fn == nil || !isPureSmall(less.Fn) {
		return f.abstractCall(st, nil, ins, resT, "sort.Slice with an unsupported comparison")
	}
	x := f.val(mi.X)
	p, n := x.S[0], x.S[1]
	stride := int64(elemStride(sl.Elem()))
	ls := leavesOf(sl.Elem(), "elem")
	perm := u.ctx.fresh("perm")
	inv := u.ctx.fresh("perminv")
	u.ctx.declareFun(perm, []string{SInt}, SInt)
	u.ctx.declareFun(inv, []string{SInt}, SInt)
	for _, fn := range []string{perm, inv} {
		u.ctx.assert("lib:sort.Slice", fmt.Sprintf("(forall ((i! Int)) (! (=> (and (<= 0 i!) (< i! %s)) (and (<= 0 (%s i!)) (< (%s i!) %s))) :pattern ((%s i!))))", n, fn, fn, n, fn))
	}
	oldArr := map[string]string{}
	newArr := map[string]string{}
	for _, l := range ls {
		if _, done := oldArr[l.Site]; done {
			continue
		}
		old := u.arr(st.mem, l.Site, l.Sort)
		na := u.ctx.freshConst("Msort:"+l.Site, SArr(SInt, l.Sort))
		oldArr[l.Site], newArr[l.Site] = old, na
		u.ctx.assert("lib:sort.Slice", fmt.Sprintf("(forall ((a! Int)) (! (=> (or (< a! %s) (>= a! (+ %s (* %s %d)))) (= (select %s a!) (select %s a!))) :pattern ((select %s a!))))", p, p, n, stride, na, old, na))
		u.sortOfSite(l.Site, l.Sort)
		u.putArr(st.mem, l.Site, na)
	}
	at := func(arr, idx string, off int) string {
		return sel(arr, add(p, add(mul(idx, intLit(stride)), intLit(int64(off)))))
	}
	for _, l := range ls {
		u.ctx.assert("lib:sort.Slice", fmt.Sprintf("(forall ((i! Int)) (! (=> (and (<= 0 i!) (< i! %s)) (= %s %s)) :pattern ((%s i!))))", n,
			at(newArr[l.Site], "i!", l.Off), at(oldArr[l.Site], app(perm, "i!"), l.Off), perm))
		u.ctx.assert("lib:sort.Slice", fmt.Sprintf("(forall ((j! Int)) (! (=> (and (<= 0 j!) (< j! %s)) (= %s %s)) :pattern ((%s j!))))", n,
			at(oldArr[l.Site], "j!", l.Off), at(newArr[l.Site], app(inv, "j!"), l.Off), inv))
	}
	// ordered by the comparison, evaluated on the new contents
	lt := u.evalPureClosure(f, st, less, []Val{{T: types.Typ[types.Int], S: []string{"j!"}}, {T: types.Typ[types.Int], S: []string{"i!"}}})
	u.ctx.assert("lib:sort.Slice", fmt.Sprintf("(forall ((i! Int) (j! Int)) (=> (and (<= 0 i!) (< i! j!) (< j! %s)) (not %s)))", n, lt))
	return nil
}

// syncOnceDo models (*sync.Once).Do(f) sequentially: a ghost flag per Once value records whether f has run; when it
// has not, the (statically known) closure is inlined once and the flag is set. Concurrent callers are outside the model.
func syncOnceDo(f *Frame, st *state, callee *ssa.Function, args []Val, ins ssa.Instruction, resT types.Type) *Val {
	u := f.u
	o, fn := args[0], args[1]
	if fn.Fn == nil {
		return f.abstractCall(st, nil, ins, resT, "sync.Once.Do with a function value that is not statically known")
	}
	const site = "sync.Once.$done"
	u.oblige(f, st, "nil", f.ordLabel(ins, "nil"), ins.Pos(), not(eq(o.S[0], "0")))
	doneArr := u.arr(st.mem, site, SBool)
	done := u.ctx.def("oncedone", SBool, sel(doneArr, o.S[0]))
	before := st.reach
	run := &state{reach: u.ctx.def("oncerun", SBool, and(before, not(done))), mem: st.mem.clone()}
	f.callStatic(run, fn.Fn, nil, fn.Binds, ins, nil)
	skip := u.ctx.def("onceskip", SBool, and(before, done))
	st.mem = u.mergeMem([]string{run.reach, skip}, []*Mem{run.mem, st.mem})
	st.reach = u.ctx.def("onceafter", SBool, or(run.reach, skip))
	u.setArr(st.mem, site, SBool, store(u.arr(st.mem, site, SBool), o.S[0], "true"))
	return nil
}

// sortInts models sort.Ints(x): afterwards the elements are a rearrangement of the old ones (two uninterpreted index
// maps, as for sort.Slice) in non-decreasing order; memory outside the slice is unchanged.
func sortInts(f *Frame, st *state, callee *ssa.Function, args []Val, ins ssa.Instruction, resT types.Type) *Val {
	u := f.u
	x := args[0]
	p, n := x.S[0], x.S[1]
	const site = "elem.int#0"
	perm, inv := u.ctx.fresh("perm"), u.ctx.fresh("perminv")
	u.ctx.declareFun(perm, []string{SInt}, SInt)
	u.ctx.declareFun(inv, []string{SInt}, SInt)
	for _, fn := range []string{perm, inv} {
		u.ctx.assert("lib:sort.Ints", fmt.Sprintf("(forall ((i! Int)) (! (=> (and (<= 0 i!) (< i! %s)) (and (<= 0 (%s i!)) (< (%s i!) %s))) :pattern ((%s i!))))", n, fn, fn, n, fn))
	}
	old := u.arr(st.mem, site, SInt)
	na := u.ctx.freshConst("Msort:"+site, SArr(SInt, SInt))
	u.ctx.assert("lib:sort.Ints", fmt.Sprintf("(forall ((a! Int)) (! (=> (or (< a! %s) (>= a! (+ %s %s))) (= (select %s a!) (select %s a!))) :pattern ((select %s a!))))", p, p, n, na, old, na))
	u.ctx.assert("lib:sort.Ints", fmt.Sprintf("(forall ((i! Int)) (! (=> (and (<= 0 i!) (< i! %s)) (= (select %s (+ %s i!)) (select %s (+ %s (%s i!))))) :pattern ((%s i!))))", n, na, p, old, p, perm, perm))
	u.ctx.assert("lib:sort.Ints", fmt.Sprintf("(forall ((j! Int)) (! (=> (and (<= 0 j!) (< j! %s)) (= (select %s (+ %s j!)) (select %s (+ %s (%s j!))))) :pattern ((%s j!))))", n, old, p, na, p, inv, inv))
	u.ctx.assert("lib:sort.Ints", fmt.Sprintf("(forall ((i! Int) (j! Int)) (=> (and (<= 0 i!) (< i! j!) (< j! %s)) (<= (select %s (+ %s i!)) (select %s (+ %s j!)))))", n, na, p, na, p))
	u.sortOfSite(site, SInt)
	u.putArr(st.mem, site, na)
	return nil
}
