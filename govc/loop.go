package main

import (
	"fmt"
	"go/token"
	"go/types"
	"sort"
	"strings"

	"golang.org/x/tools/go/ssa"
)

// ---------- syntactic write sets ----------

type writeSet struct {
	sites map[string]string // site -> sort
	top   bool              // unknown writes
	alloc bool
}

func newWriteSet() *writeSet { return &writeSet{sites: map[string]string{}} }

func (w *writeSet) addLeaves(t types.Type, hint string) {
	defer func() {
		if r := recover(); r != nil {
			if _, ok := r.(unsupported); ok {
				w.top = true
				return
			}
			panic(r)
		}
	}()
	for _, l := range leavesOf(t, hint) {
		w.sites[l.Site] = l.Sort
	}
}

func (w *writeSet) union(o *writeSet) {
	for s, srt := range o.sites {
		w.sites[s] = srt
	}
	if o.top {
		w.top = true
	}
	if o.alloc {
		w.alloc = true
	}
}

var bufSites = []string{"bytes.Buffer.$len|Int", "bytes.Buffer.$data|(Array Int (_ BitVec 8))", "bytes.Buffer.$frozen|Bool"}

var libWrites = map[string][]string{
	"(*bytes.Buffer).Write":       bufSites,
	"(*bytes.Buffer).WriteByte":   bufSites,
	"(*bytes.Buffer).WriteString": bufSites,
	"(*bytes.Buffer).Bytes":       append([]string{"elem.uint8#0|(_ BitVec 8)"}, bufSites...),
	"bytes.NewBuffer":             append([]string{"bytes.Buffer.buf#0|Int", "bytes.Buffer.buf#1|Int", "bytes.Buffer.buf#2|Int", "bytes.Buffer.off#0|Int", "bytes.Buffer.lastRead#0|(_ BitVec 8)"}, bufSites...),
	"bytes.Clone":                 {"elem.uint8#0|(_ BitVec 8)"},
	"sort.Strings":                {"elem.string#0|Int", "elem.string#1|Int"},
	"time.Now":                    {"ghost.clock|(_ BitVec 64)"},
	modRoot + "/protocol/utils.GBK2UTF8": {"elem.uint8#0|(_ BitVec 8)"},
	modRoot + "/protocol/utils.UTF82GBK": {"elem.uint8#0|(_ BitVec 8)"},
}

func staticHint(addr ssa.Value) (string, bool) {
	switch a := addr.(type) {
	case *ssa.FieldAddr:
		st := a.X.Type().Underlying().(*types.Pointer).Elem()
		return fieldHint(st, a.Field), true
	case *ssa.IndexAddr, *ssa.Alloc:
		return "elem", true
	case *ssa.Global:
		return "field:global." + shortPkg(a.Pkg.Pkg.Path()) + "." + a.Name(), true
	}
	return "elem", false
}

var writesCache = map[*ssa.Function]*writeSet{}
var writesBusy = map[*ssa.Function]bool{}

func (u *Unit) writesOfFunc(fn *ssa.Function) *writeSet {
	if w, ok := writesCache[fn]; ok {
		return w
	}
	if writesBusy[fn] {
		return newWriteSet() // recursion: fixpoint approximation (recursive functions are rejected anyway)
	}
	writesBusy[fn] = true
	w := newWriteSet()
	for _, b := range fn.Blocks {
		for _, ins := range b.Instrs {
			u.writesOfInstr(ins, w)
		}
	}
	delete(writesBusy, fn)
	writesCache[fn] = w
	return w
}

func (u *Unit) writesOfInstr(ins ssa.Instruction, w *writeSet) {
	str := func() { w.sites[strSite] = SBV(8); w.alloc = true }
	switch x := ins.(type) {
	case *ssa.Store:
		elem := x.Addr.Type().Underlying().(*types.Pointer).Elem()
		hint, known := staticHint(x.Addr)
		if _, isStruct := elem.Underlying().(*types.Struct); !known && !isStruct {
			if _, isArr := elem.Underlying().(*types.Array); !isArr {
				// pointer of unknown provenance to a non-struct value
				w.addLeaves(elem, "elem")
				return
			}
		}
		w.addLeaves(elem, hint)
	case *ssa.Alloc:
		w.alloc = true
		w.addLeaves(x.Type().(*types.Pointer).Elem(), "elem")
		if isBytesBuffer(x.Type().(*types.Pointer).Elem()) {
			for _, s := range bufSites {
				parts := strings.SplitN(s, "|", 2)
				w.sites[parts[0]] = parts[1]
			}
		}
	case *ssa.MakeSlice:
		w.alloc = true
		w.addLeaves(x.Type().Underlying().(*types.Slice).Elem(), "elem")
	case *ssa.MakeMap:
		w.alloc = true
		u.mapSites(x.Type(), w)
	case *ssa.MapUpdate:
		u.mapSites(x.Map.Type(), w)
	case *ssa.MakeInterface:
		ls := leavesOfSafe(x.X.Type())
		if !(len(ls) == 1 && ls[0].Sort == SInt) && len(ls) > 0 {
			w.alloc = true
			w.addLeaves(x.X.Type(), "elem")
		}
	case *ssa.Convert:
		if isStringT(x.Type()) && isByteSlice(x.X.Type()) {
			str()
		} else if isByteSlice(x.Type()) && isStringT(x.X.Type()) {
			w.alloc = true
			w.sites[byteSite] = SBV(8)
		}
	case *ssa.BinOp:
		if isStringT(x.Type()) {
			str()
		}
	case *ssa.Range:
		if _, ok := x.X.Type().Underlying().(*types.Map); ok {
			w.alloc = true
			mi := u.mapInfoSafe(x.X.Type())
			if mi != nil {
				w.sites["iter."+mi.key] = SArr(mi.kSort, SBool)
			} else {
				w.top = true
			}
		}
	case *ssa.Next:
		if r, ok := x.Iter.(*ssa.Range); ok {
			if mi := u.mapInfoSafe(r.X.Type()); mi != nil {
				w.sites["iter."+mi.key] = SArr(mi.kSort, SBool)
			}
		}
	case *ssa.Call:
		u.writesOfCall(&x.Call, w)
	case *ssa.Go, *ssa.Defer, *ssa.Send, *ssa.Select:
		w.top = true
	}
}

func (u *Unit) mapInfoSafe(t types.Type) (mi *mapInfo) {
	defer func() {
		if r := recover(); r != nil {
			if _, ok := r.(unsupported); ok {
				mi = nil
				return
			}
			panic(r)
		}
	}()
	return u.mapInfo(t)
}

func (u *Unit) mapSites(t types.Type, w *writeSet) {
	mi := u.mapInfoSafe(t)
	if mi == nil {
		w.top = true
		return
	}
	w.sites[mi.domSite] = SArr(mi.kSort, SBool)
	w.sites[mi.lenSite] = SInt
	for j, l := range mi.vLeaves {
		w.sites[mi.valSite[j]] = SArr(mi.kSort, l.Sort)
	}
}

func (u *Unit) writesOfCall(c *ssa.CallCommon, w *writeSet) {
	if b, ok := c.Value.(*ssa.Builtin); ok {
		switch b.Name() {
		case "append":
			w.alloc = true
			w.addLeaves(c.Args[0].Type().Underlying().(*types.Slice).Elem(), "elem")
		case "copy":
			w.addLeaves(c.Args[0].Type().Underlying().(*types.Slice).Elem(), "elem")
		case "delete", "clear":
			if _, ok := c.Args[0].Type().Underlying().(*types.Map); ok {
				u.mapSites(c.Args[0].Type(), w)
			} else if sl, ok := c.Args[0].Type().Underlying().(*types.Slice); ok {
				w.addLeaves(sl.Elem(), "elem")
			}
		}
		return
	}
	if c.IsInvoke() {
		// dynamic dispatch is encoded as "must be unreachable" unless resolved statically; when it is resolved
		// the callee is inlined in a context where the loop analysis has already run, so stay conservative
		// only for invocations on values whose dynamic type can be known (MakeInterface in the same function).
		if _, ok := c.Value.(*ssa.MakeInterface); ok {
			w.top = true
		}
		return
	}
	callee := c.StaticCallee()
	if callee == nil {
		// closure value defined in the same function?
		if mc, ok := c.Value.(*ssa.MakeClosure); ok {
			callee = mc.Fn.(*ssa.Function)
		} else {
			// call of an unknown function value: encoded as an obligation that the call is unreachable,
			// so it contributes no writes
			return
		}
	}
	full := callee.String()
	if full == "sort.Slice" {
		if mi, ok := c.Args[0].(*ssa.MakeInterface); ok {
			if sl, ok := mi.X.Type().Underlying().(*types.Slice); ok {
				w.addLeaves(sl.Elem(), "elem")
			}
		}
	}
	if _, ok := libModels[full]; ok {
		for _, s := range libWrites[full] {
			parts := strings.SplitN(s, "|", 2)
			w.sites[parts[0]] = parts[1]
		}
		// models returning fresh strings / byte slices / errors
		if t := callee.Signature.Results(); t != nil {
			for i := 0; i < t.Len(); i++ {
				if isStringT(t.At(i).Type()) {
					w.sites[strSite] = SBV(8)
				}
			}
		}
		switch {
		case strings.Contains(full, "BigEndian") || strings.Contains(full, "bigEndian"):
			if strings.Contains(full, "Put") || strings.Contains(full, "Append") {
				w.sites[byteSite] = SBV(8)
			}
		}
		w.alloc = true
		return
	}
	if len(callee.Blocks) == 0 || !strings.HasPrefix(pkgPathOf(callee), modRoot) {
		w.top = true
		return
	}
	w.union(u.writesOfFunc(callee))
	// closures passed as arguments may be called by the callee: include their writes
	for _, a := range c.Args {
		if mc, ok := a.(*ssa.MakeClosure); ok {
			w.union(u.writesOfFunc(mc.Fn.(*ssa.Function)))
		}
	}
}

// ---------- variable resolution ----------

// lookupVar resolves a source-level variable name at the given program point.
// at: block whose entry dominates the use; edgeFrom: when evaluating on a back edge of loop li.
func (f *Frame) lookupVar(name string, st *state, li *loopInfo, edgeFrom *ssa.BasicBlock) (Val, bool) {
	if li != nil {
		for l := li; l != nil; l = nil {
			for _, ins := range l.header.Instrs {
				phi, ok := ins.(*ssa.Phi)
				if !ok {
					break
				}
				if phi.Comment == name {
					if edgeFrom != nil {
						for k, p := range l.header.Preds {
							if p == edgeFrom {
								return f.val(phi.Edges[k]), true
							}
						}
					}
					return f.vals[phi], true
				}
			}
		}
	}
	if li == nil && f.atBlock != nil {
		// inside a loop body (call-site assertions): the loop-carried variables of the enclosing loops, innermost first,
		// with their values at the loop head of the current iteration
		var best *loopInfo
		for _, l := range f.loops {
			if l.body[f.atBlock] && (best == nil || len(l.body) < len(best.body)) {
				for _, ins := range l.header.Instrs {
					if phi, ok := ins.(*ssa.Phi); ok && phi.Comment == name {
						best = l
					}
				}
			}
		}
		if best != nil {
			// ... unless the variable was assigned again in this iteration before the current point (msgs = append(msgs, x);
			// call(...)): then the general search below finds the later value
			reassigned := false
			for _, b := range f.fn.Blocks {
				if !best.body[b] || !b.Dominates(f.atBlock) {
					continue
				}
				for idx, ins := range b.Instrs {
					if b == f.atBlock && idx >= f.atIdx {
						break
					}
					if d, ok := ins.(*ssa.DebugRef); ok && d.Object() != nil && d.Object().Name() == name && !d.IsAddr {
						if _, isPhi := d.X.(*ssa.Phi); !isPhi {
							if _, defined := f.vals[d.X]; defined {
								reassigned = true
							}
						}
					}
				}
			}
			if !reassigned {
				for _, ins := range best.header.Instrs {
					if phi, ok := ins.(*ssa.Phi); ok && phi.Comment == name {
						if v, ok := f.vals[phi]; ok {
							return v, true
						}
					}
				}
			}
		}
	}
	// enclosing loops' header phis (variable modified only in an outer loop)
	var at *ssa.BasicBlock
	atIdx := -1 // -1: entry of block "at" (loop header); >= 0: before instruction atIdx of block "at"
	if li != nil {
		at = li.header
	} else if f.atBlock != nil {
		at, atIdx = f.atBlock, f.atIdx
	}
	var best ssa.Value
	var bestAddr bool
	var bestBlock *ssa.BasicBlock
	bestIdx := -1
	for _, b := range f.fn.Blocks {
		if at != nil && !(b.Dominates(at)) {
			continue
		}
		for idx, ins := range b.Instrs {
			d, ok := ins.(*ssa.DebugRef)
			if !ok || d.Object() == nil || d.Object().Name() != name {
				continue
			}
			if b == at && atIdx < 0 {
				// only phis of the header itself are visible at its entry
				if _, isPhi := d.X.(*ssa.Phi); !isPhi {
					continue
				}
			}
			if b == at && atIdx >= 0 && idx >= atIdx {
				continue
			}
			dx, dAddr := d.X, d.IsAddr
			// a variable that lives in a memory cell (captured by a closure, address taken): the debug reference names
			// the value stored or loaded at that point, which is stale afterwards - read the cell in the current state
			if a := f.allocOf(d.Object()); a != nil && !dAddr {
				if _, defined := f.vals[a]; defined {
					dx, dAddr = a, true
				}
			}
			if _, defined := f.vals[dx]; !defined {
				if _, isConst := dx.(*ssa.Const); !isConst {
					continue
				}
			}
			if bestBlock == nil || bestBlock.Dominates(b) && (b != bestBlock || idx > bestIdx) {
				best, bestAddr, bestBlock, bestIdx = dx, dAddr, b, idx
			}
		}
	}
	if best != nil {
		v := f.val(best)
		if bestAddr {
			elem := best.Type().Underlying().(*types.Pointer).Elem()
			env := &Env{u: f.u, st: st}
			return env.loadAt(v.S[0], elem, v.Hint), true
		}
		return v, true
	}
	// never reassigned before this point: the parameter or captured variable itself
	for i, p := range f.fn.Params {
		if p.Name() == name {
			if i < len(f.params) {
				return f.params[i], true
			}
			return f.vals[p], true
		}
	}
	for i, fv := range f.fn.FreeVars {
		if fv.Name() == name {
			cell := f.free[i]
			elem := fv.Type().(*types.Pointer).Elem()
			env := &Env{u: f.u, st: st}
			return env.loadAt(cell.S[0], elem, "elem"), true
		}
	}
	return Val{}, false
}

// allocOf returns the memory cell of a source variable, if it has one.
func (f *Frame) allocOf(obj types.Object) *ssa.Alloc {
	if obj == nil || !obj.Pos().IsValid() {
		return nil
	}
	if f.allocs == nil {
		f.allocs = map[token.Pos]*ssa.Alloc{}
		for _, b := range f.fn.Blocks {
			for _, ins := range b.Instrs {
				if a, ok := ins.(*ssa.Alloc); ok && a.Pos().IsValid() && a.Comment != "" {
					f.allocs[a.Pos()] = a
				}
			}
		}
	}
	if a := f.allocs[obj.Pos()]; a != nil && a.Comment == obj.Name() {
		return a
	}
	return nil
}

func (f *Frame) pkgTypes() *types.Package {
	fn := f.fn
	for fn.Parent() != nil {
		fn = fn.Parent()
	}
	if fn.Pkg != nil {
		return fn.Pkg.Pkg
	}
	return nil
}

func (f *Frame) loopEnv(li *loopInfo, st *state, edgeFrom *ssa.BasicBlock) *Env {
	return &Env{u: f.u, f: f, st: st, old: &state{reach: f.entryR, mem: f.entry}, pkg: f.pkgTypes(), li: li,
		bound: map[string]Val{},
		look: func(name string) (Val, bool) { return f.lookupVar(name, st, li, edgeFrom) }}
}

func (f *Frame) evalClause(env *Env, label, src string, eval func() string) (term string, quant bool, err error) {
	defer func() {
		if r := recover(); r != nil {
			switch x := r.(type) {
			case specError:
				err = fmt.Errorf("%s: %s", label, x.msg)
			case unsupported:
				err = fmt.Errorf("%s: %s", label, x.msg)
			default:
				panic(r)
			}
		}
	}()
	term = eval()
	return term, env.quant, nil
}

func (f *Frame) loopClauses(li *loopInfo) []LoopClause {
	if f.ct == nil {
		return nil
	}
	var out []LoopClause
	for _, c := range f.ct.Loops {
		if c.Loop == li.ordinal {
			out = append(out, c)
		}
	}
	return out
}

// loopHead: establish invariants on entry, havoc, assume.
func (f *Frame) loopHead(li *loopInfo, st *state) {
	u := f.u
	li.invs = f.loopClauses(li)
	li.reachE = st.reach
	li.entryM = st.mem.clone()
	// 1. establishment, with the entering values of the phis
	for _, c := range li.invs {
		if c.Kind != "invariant" {
			continue
		}
		env := f.loopEnv(li, st, nil)
		term, quant, err := f.evalClause(env, c.Label, c.Src, func() string { return env.evalBool(c.Expr) })
		if err != nil {
			u.specErrors = append(u.specErrors, fmt.Sprintf("%s loop %d invariant %v", f.key, li.ordinal, err))
			continue
		}
		o := u.oblige(f, st, "inv-est", fmt.Sprintf("loop%d.%s", li.ordinal, c.Label), li.header.Instrs[0].Pos(), term)
		o.Quant = quant
	}
	// 2. havoc
	entrySt := &state{reach: st.reach, mem: st.mem.clone()}
	entryPhis := map[*ssa.Phi]Val{}
	for _, ins := range li.header.Instrs {
		if phi, ok := ins.(*ssa.Phi); ok {
			entryPhis[phi] = f.vals[phi]
		}
	}
	li.entryPhis = entryPhis
	ws := newWriteSet()
	for b := range li.body {
		for _, ins := range b.Instrs {
			u.writesOfInstr(ins, ws)
		}
	}
	if ws.top {
		for s, srt := range u.siteSort {
			ws.sites[s] = srt
		}
		u.notes = append(u.notes, fmt.Sprintf("%s loop %d: unknown writes, all known heap sites havocked", f.key, li.ordinal))
	}
	var sites []string
	for s := range ws.sites {
		sites = append(sites, s)
	}
	sort.Strings(sites)
	entryAlloc := st.mem.alloc
	na := u.ctx.freshConst(fmt.Sprintf("%s.L%d.alloc", f.prefix, li.ordinal), SInt)
	u.ctx.assert("loop-alloc", le(entryAlloc, na))
	st.mem.alloc = na
	for _, s := range sites {
		srt := ws.sites[s]
		old := u.arr(st.mem, s, srt)
		u.sortOfSite(s, srt)
		h := u.ctx.freshConst(fmt.Sprintf("%s.L%d.M:%s", f.prefix, li.ordinal, s), SArr(SInt, srt))
		u.putArr(st.mem, s, h)
		u.typingAxiom(h, s, na)
		if s == strSite {
			// strings are immutable: everything allocated before the loop is unchanged
			u.ctx.assert("loop-str", fmt.Sprintf("(forall ((a! Int)) (! (=> (< a! %s) (= (select %s a!) (select %s a!))) :pattern ((select %s a!))))", entryAlloc, h, old, h))
		}
	}
	li.phiHav = map[*ssa.Phi]Val{}
	for _, ins := range li.header.Instrs {
		phi, ok := ins.(*ssa.Phi)
		if !ok {
			continue
		}
		hv := u.havocVal(fmt.Sprintf("%s.L%d.%s", f.prefix, li.ordinal, phiName(phi)), phi.Type(), st.mem, st.reach)
		ent := f.vals[phi]
		hv.Hint = ent.Hint
		f.vals[phi] = hv
		li.phiHav[phi] = hv
	}
	li.memHead = st.mem.clone()
	f.autoInvariants(li, entrySt, st, sites, ws)
	// 3. assume invariants in the havocked state
	for _, c := range li.invs {
		env := f.loopEnv(li, st, nil)
		switch c.Kind {
		case "invariant":
			env.assume = true
			term, _, err := f.evalClause(env, c.Label, c.Src, func() string { return env.evalBool(c.Expr) })
			if err == nil {
				u.ctx.assert("inv:"+c.Label, implies(st.reach, term))
			}
		case "decreases":
			term, _, err := f.evalClause(env, c.Label, c.Src, func() string { return env.evalInt(c.Expr) })
			if err != nil {
				u.specErrors = append(u.specErrors, fmt.Sprintf("%s loop %d decreases %v", f.key, li.ordinal, err))
				continue
			}
			li.variant = u.ctx.def(fmt.Sprintf("%s.L%d.variant", f.prefix, li.ordinal), SInt, term)
		}
	}
	if li.variant == "" {
		f.inferVariant(li, st)
	}
}

func phiName(p *ssa.Phi) string {
	if p.Comment != "" {
		return p.Comment
	}
	return p.Name()
}

// loopBack: preservation of invariants and decrease of the variant along the back edge from block b.
func (f *Frame) loopBack(li *loopInfo, b *ssa.BasicBlock) {
	u := f.u
	out := f.outs[b]
	var cs []string
	for _, i := range edgeIndex(b, li.header) {
		cs = append(cs, out.cond[i])
	}
	st := &state{reach: u.ctx.def(fmt.Sprintf("%s.back%d", f.prefix, b.Index), SBool, and(out.reach, or(cs...))), mem: out.mem.clone()}
	pos := li.header.Instrs[0].Pos()
	for _, c := range li.invs {
		env := f.loopEnv(li, st, b)
		switch c.Kind {
		case "invariant":
			term, quant, err := f.evalClause(env, c.Label, c.Src, func() string { return env.evalBool(c.Expr) })
			if err != nil {
				u.specErrors = append(u.specErrors, fmt.Sprintf("%s loop %d invariant (back edge) %v", f.key, li.ordinal, err))
				continue
			}
			o := u.oblige(f, st, "inv-pres", fmt.Sprintf("loop%d.%s@b%d", li.ordinal, c.Label, b.Index), pos, term)
			o.Quant = quant
		case "decreases":
			term, _, err := f.evalClause(env, c.Label, c.Src, func() string { return env.evalInt(c.Expr) })
			if err != nil {
				continue
			}
			u.oblige(f, st, "term", fmt.Sprintf("loop%d@b%d", li.ordinal, b.Index), pos, and(le("0", li.variant), lt(term, li.variant)))
		}
	}
	for _, a := range li.autos {
		u.oblige(f, st, "inv-pres", fmt.Sprintf("loop%d.%s@b%d", li.ordinal, a.label, b.Index), pos, a.check(st, b))
	}
	if li.autoVariant != nil {
		v1 := li.autoVariant(f, b)
		v0 := li.autoV0(f)
		u.oblige(f, st, "term", fmt.Sprintf("loop%d.auto@b%d", li.ordinal, b.Index), pos, and(le("0", v0), lt(v1, v0)))
	}
	// heap typing at the loop head is an assumption about havocked state; nothing to check here
}

// inferVariant recognises counting loops: header "if i < n" / rangeindex, with i increasing on every back edge.
func (f *Frame) inferVariant(li *loopInfo, st *state) {
	h := li.header
	if len(h.Instrs) == 0 {
		return
	}
	ifi, ok := h.Instrs[len(h.Instrs)-1].(*ssa.If)
	if !ok {
		return
	}
	cmp, ok := ifi.Cond.(*ssa.BinOp)
	if !ok || cmp.Op.String() != "<" || !isIntSort(cmp.X.Type()) {
		return
	}
	// bound must be defined outside the loop (or be a len() of such a value / field load is not accepted)
	if !f.loopInvariantValue(li, cmp.Y) {
		return
	}
	// cmp.X is the phi itself or phi+1 (rangeindex)
	var phi *ssa.Phi
	switch x := cmp.X.(type) {
	case *ssa.Phi:
		phi = x
	case *ssa.BinOp:
		if p, ok := x.X.(*ssa.Phi); ok && x.Op.String() == "+" {
			phi = p
		}
	}
	if phi == nil || phi.Block() != h {
		return
	}
	bound := cmp.Y
	hav := f.vals[phi].S[0]
	li.autoV0 = func(f *Frame) string { return sub(f.val(bound).S[0], hav) }
	// the variant is only meaningful under the loop guard: n - i > 0 when the body is entered. We check on back edges
	// that i strictly increases and that the previous value satisfied the guard (0 <= n - i).
	li.autoVariant = func(f *Frame, from *ssa.BasicBlock) string {
		for k, p := range h.Preds {
			if p == from {
				return sub(f.val(bound).S[0], f.val(phi.Edges[k]).S[0])
			}
		}
		return "0"
	}
	li.autoNote = fmt.Sprintf("variant inferred: %s - %s", bound.Name(), phiName(phi))
}

func (f *Frame) loopInvariantValue(li *loopInfo, v ssa.Value) bool {
	switch x := v.(type) {
	case *ssa.Const, *ssa.Parameter:
		return true
	case ssa.Instruction:
		if !li.body[x.Block()] {
			return true
		}
		// len(x) of a loop-invariant slice computed inside the header
		if c, ok := v.(*ssa.Call); ok {
			if b, ok := c.Call.Value.(*ssa.Builtin); ok && b.Name() == "len" {
				return f.loopInvariantValue(li, c.Call.Args[0])
			}
		}
		if c, ok := v.(*ssa.Convert); ok {
			return f.loopInvariantValue(li, c.X)
		}
	}
	return false
}


type autoInv struct {
	label  string
	assume func(st *state) string
	check  func(st *state, edgeFrom *ssa.BasicBlock) string // edgeFrom nil: entering state
}

// autoInvariants adds inferred invariants; each is checked (inv-est / inv-pres) like a written one.
func (f *Frame) autoInvariants(li *loopInfo, entrySt, st *state, sites []string, ws *writeSet) {
	u := f.u
	h := li.header
	incoming := func(phi *ssa.Phi, from *ssa.BasicBlock) string {
		if from == nil {
			return li.entryPhis[phi].S[0]
		}
		for k, p := range h.Preds {
			if p == from {
				return f.val(phi.Edges[k]).S[0]
			}
		}
		return "0"
	}
	for _, ins := range h.Instrs {
		phi, ok := ins.(*ssa.Phi)
		if !ok {
			break
		}
		if !isIntSort(phi.Type()) {
			continue
		}
		hv := li.phiHav[phi].S[0]
		if phi.Comment == "rangeindex" {
			// t = phi[-1, t+1]; guard t+1 < n with loop-invariant n
			if ifi, ok := h.Instrs[len(h.Instrs)-1].(*ssa.If); ok {
				if cmp, ok := ifi.Cond.(*ssa.BinOp); ok && cmp.Op.String() == "<" && f.loopInvariantValue(li, cmp.Y) {
					if _, defined := f.vals[cmp.Y]; defined || isConstValue(cmp.Y) {
						n := f.val(cmp.Y).S[0]
						li.autos = append(li.autos, autoInv{label: "auto.rangeindex",
							assume: func(st *state) string { return and(le("(- 1)", hv), lt(hv, n)) },
							check: func(st *state, from *ssa.BasicBlock) string {
								v := incoming(phi, from)
								return and(le("(- 1)", v), or(lt(v, n), eq(v, "(- 1)")))
							}})
					}
				}
			}
			continue
		}
		// lower bound: entering value is a constant c and every back edge adds a positive constant
		var c *ssa.Const
		okPattern := true
		for k, p := range h.Preds {
			e := phi.Edges[k]
			if isBackEdge(p, h) {
				if !addsPositiveConst(e, phi, 0) {
					okPattern = false
				}
			} else if cc, ok := e.(*ssa.Const); ok && cc.Value != nil {
				if c != nil && c.Int64() != cc.Int64() {
					okPattern = false
				}
				c = cc
			} else {
				okPattern = false
			}
		}
		if okPattern && c != nil {
			lo := intLit(c.Int64())
			li.autos = append(li.autos, autoInv{label: "auto.lower." + phiName(phi),
				assume: func(st *state) string { return le(lo, hv) },
				check:  func(st *state, from *ssa.BasicBlock) string { return le(lo, incoming(phi, from)) }})
		}
	}
	// frame invariants, when the function promises a frame
	if f.ct != nil && (f.ct.HasMod || f.ct.Mode == "contract") {
		entry := &state{reach: f.entryR, mem: f.entry}
		env := u.funcEnv(f.fn, f.params, nil, entry, entry)
		ranges, err := u.modRanges(f.ct, env)
		if err == nil {
			for _, s := range sites {
				if s == strSite || strings.HasPrefix(s, "ghost.") || strings.HasPrefix(s, "iter.") {
					continue
				}
				s := s
				srt := ws.sites[s]
				m0 := u.arr(f.entry, s, srt)
				a0 := f.entry.alloc
				rs := ranges[s]
				li.autos = append(li.autos, autoInv{label: "auto.frame." + s,
					assume: func(st *state) string {
						return fmt.Sprintf("(forall ((a! Int)) (! (=> (and (< a! %s) %s) (= (select %s a!) (select %s a!))) :pattern ((select %s a!))))",
							a0, not(inAny(rs, "a!")), st.mem.arr[s], m0, st.mem.arr[s])
					},
					check: func(st *state, from *ssa.BasicBlock) string {
						a := u.ctx.freshConst("fr.a", SInt)
						return implies(and(lt(a, a0), not(inAny(rs, a))), eq(sel(u.arr(st.mem, s, srt), a), sel(m0, a)))
					}})
			}
		}
	}
	for _, a := range li.autos {
		u.oblige(f, entrySt, "inv-est", fmt.Sprintf("loop%d.%s", li.ordinal, a.label), h.Instrs[0].Pos(), a.check(entrySt, nil))
		u.ctx.assert("inv:"+a.label, implies(st.reach, a.assume(st)))
	}
}

func isConstValue(v ssa.Value) bool { _, ok := v.(*ssa.Const); return ok }

// addsPositiveConst: e is phi + c (c > 0), possibly through phis merging such values.
func addsPositiveConst(e ssa.Value, phi *ssa.Phi, depth int) bool {
	if depth > 4 {
		return false
	}
	switch x := e.(type) {
	case *ssa.BinOp:
		if x.Op.String() != "+" {
			return false
		}
		c, ok := x.Y.(*ssa.Const)
		if !ok || c.Value == nil || c.Int64() <= 0 {
			return false
		}
		return x.X == phi || addsNonNegative(x.X, phi, depth+1)
	case *ssa.Phi:
		for _, ed := range x.Edges {
			if !addsPositiveConst(ed, phi, depth+1) {
				return false
			}
		}
		return true
	}
	return false
}

func addsNonNegative(e ssa.Value, phi *ssa.Phi, depth int) bool {
	if e == phi {
		return true
	}
	if depth > 4 {
		return false
	}
	switch x := e.(type) {
	case *ssa.BinOp:
		if x.Op.String() != "+" {
			return false
		}
		c, ok := x.Y.(*ssa.Const)
		if !ok || c.Value == nil || c.Int64() < 0 {
			return false
		}
		return addsNonNegative(x.X, phi, depth+1)
	case *ssa.Phi:
		for _, ed := range x.Edges {
			if !addsNonNegative(ed, phi, depth+1) {
				return false
			}
		}
		return true
	}
	return false
}
