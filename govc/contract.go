package main

import (
	"fmt"
	"go/ast"
	"go/parser"
	"go/token"
	"os"
	"path/filepath"
	"sort"
	"strconv"
	"strings"
)

const contractFile = "zz_verif_contracts.go"

type Clause struct {
	Kind  string // requires, ensures, assert
	Label string
	Src   string
	Expr  ast.Expr
	Line  int
	Props []string
}

type LoopClause struct {
	Loop  int
	Kind  string // invariant, decreases
	Label string
	Src   string
	Expr  ast.Expr
	Line  int
}

type FuncContract struct {
	Key      string
	Pkg      string
	Mode     string // inline (default), contract, trusted
	Requires []Clause
	Ensures  []Clause
	Modifies []ast.Expr
	ModSrc   []string
	HasMod   bool
	Loops    []LoopClause
	Uses     []string
	UseExprs []ast.Expr
	// Focus: proof hints "focus goal: fact fact ..." - when the full context is undecided, the goal is retried with
	// only the quantified specification facts named here (and those carrying the goal's own name); hiding facts is sound.
	Focus map[string][]string
	PreCalls []PreCall
	// Ghosts name values that exist only inside the function (an argument or result of a call it makes) so that the
	// postcondition can speak about them; a caller sees them as existentially quantified (fresh constants).
	Ghosts []GhostDef
	// PostUses are lemma applications evaluated in the post-state (they may name results and ghosts); they are assumed
	// before the postconditions are checked and, together with the postconditions, at every call site in contract mode.
	PostUses     []string
	PostUseExprs []ast.Expr
	File     string
	Line     int
}

// GhostDef: "ghost <name>: <callee> argK" or "ghost <name>: <callee> resultK" - the callee must be called exactly once
// (statically) in the function.
type GhostDef struct {
	Name, Callee string
	Arg, Res     int // one of them is >= 0, unless GhostOf is set
	GhostOf      string // "ghost x: callee ghost.y": the ghost y of the (last) contract-mode call of callee
	Line         int
}

// PreCall is an assertion checked immediately before the n-th call (source order) of a callee inside a function.
type PreCall struct {
	Callee string // short name of the callee, e.g. "escape"
	Nth    int    // 1-based; 0 = every call
	Label  string
	Src    string
	Expr   ast.Expr
	Line   int
}

type SpecFunc struct {
	// Reads: optional footprint "reads d[lo:hi]" (hi must be an int parameter): enables the generated frame lemma
	ReadsParam string
	ReadsLo    string
	ReadsHi    string
	Name    string
	Pkg     string
	Params  []specParam
	Ret     string // Go type text
	BodySrc string
	Body    ast.Expr
	File    string
	Line    int
}

type specParam struct {
	Name string
	Type string
}

type Lemma struct {
	Name    string
	Pkg     string
	Params  []specParam
	StmtSrc string
	Stmt    ast.Expr
	IndVar  string
	From    string
	TriggerSrc string
	Trigger    ast.Expr
	Hyps    []string // extra hypotheses (source)
	File    string
	Line    int
}

type ValidDecl struct {
	Pkg  string
	Type string // type name within Pkg
	Var  string
	Src  string
	Expr ast.Expr
}

type ContractDB struct {
	Valid  map[string]*ValidDecl // "pkg.Type"
	Funcs  map[string]*FuncContract
	Specs  map[string]*SpecFunc // pkg-qualified: "jt808.elen"
	Lemmas map[string]*Lemma
	// Impls: "pkg.Interface" -> "*Type" / "Type" (same package): assumption that values of the interface type hold that
	// dynamic type, used to resolve method calls through the interface; reported as an assumption by every unit that uses it
	Impls  map[string]string
	Files  []string
	Errors []string
}

func (db *ContractDB) forFunc(key string) *FuncContract {
	if db == nil {
		return nil
	}
	return db.Funcs[key]
}

func loadContracts(p *Program) *ContractDB {
	db := &ContractDB{Valid: map[string]*ValidDecl{}, Funcs: map[string]*FuncContract{}, Specs: map[string]*SpecFunc{}, Lemmas: map[string]*Lemma{}}
	seen := map[string]bool{}
	for _, path := range loadPatterns {
		dir := p.pkgDir(path)
		if dir == "" || seen[dir] {
			continue
		}
		seen[dir] = true
		file := filepath.Join(dir, contractFile)
		data, err := os.ReadFile(file)
		if err != nil {
			continue
		}
		db.Files = append(db.Files, file)
		db.parseFile(shortPkg(path), file, string(data))
	}
	return db
}

// rewriteImplies turns "A ==> B" (right associative, lowest precedence) into implies(A, B), recursively.
func rewriteImplies(s string) string {
	// find top-level ==>
	depth := 0
	inStr := byte(0)
	for i := 0; i+2 < len(s); i++ {
		c := s[i]
		if inStr != 0 {
			if c == '\\' {
				i++
			} else if c == inStr {
				inStr = 0
			}
			continue
		}
		switch c {
		case '"', '\'', '`':
			inStr = c
		case '(', '[', '{':
			depth++
		case ')', ']', '}':
			depth--
		case '=':
			if depth == 0 && s[i:i+3] == "==>" {
				return "implies(" + rewriteImplies(s[:i]) + ", " + rewriteImplies(s[i+3:]) + ")"
			}
		}
	}
	// no top-level ==>: descend into groups
	var b strings.Builder
	i := 0
	for i < len(s) {
		c := s[i]
		if c == '"' || c == '\'' || c == '`' {
			j := i + 1
			for j < len(s) && s[j] != c {
				if s[j] == '\\' {
					j++
				}
				j++
			}
			if j >= len(s) {
				j = len(s) - 1
			}
			b.WriteString(s[i : j+1])
			i = j + 1
			continue
		}
		if c == '(' || c == '[' {
			close := byte(')')
			if c == '[' {
				close = ']'
			}
			// find matching
			d := 0
			j := i
			for ; j < len(s); j++ {
				if s[j] == '(' || s[j] == '[' {
					d++
				} else if s[j] == ')' || s[j] == ']' {
					d--
					if d == 0 {
						break
					}
				}
			}
			if j >= len(s) {
				b.WriteString(s[i:])
				break
			}
			inner := s[i+1 : j]
			// split on top-level commas
			parts := splitTop(inner, ',')
			for k := range parts {
				parts[k] = rewriteImplies(parts[k])
			}
			b.WriteByte(c)
			b.WriteString(strings.Join(parts, ","))
			b.WriteByte(close)
			i = j + 1
			continue
		}
		b.WriteByte(c)
		i++
	}
	return b.String()
}

func splitTop(s string, sep byte) []string {
	var parts []string
	depth := 0
	start := 0
	inStr := byte(0)
	for i := 0; i < len(s); i++ {
		c := s[i]
		if inStr != 0 {
			if c == '\\' {
				i++
			} else if c == inStr {
				inStr = 0
			}
			continue
		}
		switch c {
		case '"', '\'', '`':
			inStr = c
		case '(', '[', '{':
			depth++
		case ')', ']', '}':
			depth--
		default:
			if c == sep && depth == 0 {
				parts = append(parts, s[start:i])
				start = i + 1
			}
		}
	}
	parts = append(parts, s[start:])
	return parts
}

// splitConj splits a clause into its top-level conjuncts; conjunctions directly under forall(k, lo, hi, ...) and
// implies(a, ...) are distributed. Each conjunct becomes its own obligation (smaller queries, precise diagnostics).
func splitConj(e ast.Expr) []ast.Expr {
	switch n := e.(type) {
	case *ast.ParenExpr:
		return splitConj(n.X)
	case *ast.BinaryExpr:
		if n.Op == token.LAND {
			return append(splitConj(n.X), splitConj(n.Y)...)
		}
	case *ast.CallExpr:
		if id, ok := n.Fun.(*ast.Ident); ok {
			if id.Name == "forall" && len(n.Args) == 4 {
				var out []ast.Expr
				for _, b := range splitConj(n.Args[3]) {
					out = append(out, &ast.CallExpr{Fun: n.Fun, Args: []ast.Expr{n.Args[0], n.Args[1], n.Args[2], b}})
				}
				return out
			}
			if id.Name == "implies" && len(n.Args) == 2 {
				var out []ast.Expr
				for _, b := range splitConj(n.Args[1]) {
					out = append(out, &ast.CallExpr{Fun: n.Fun, Args: []ast.Expr{n.Args[0], b}})
				}
				return out
			}
		}
	}
	return []ast.Expr{e}
}

func parseSpecExpr(src string) (ast.Expr, error) {
	return parser.ParseExpr(rewriteImplies(src))
}

func splitLabel(s string) (label, rest string) {
	// "label: expr" where label has no spaces
	i := strings.Index(s, ":")
	if i <= 0 {
		return "", s
	}
	l := strings.TrimSpace(s[:i])
	if strings.ContainsAny(l, " \t()[]") {
		return "", s
	}
	return l, strings.TrimSpace(s[i+1:])
}

func parseParams(s string) []specParam {
	var ps []specParam
	for _, part := range splitTop(s, ',') {
		part = strings.TrimSpace(part)
		if part == "" {
			continue
		}
		fs := strings.Fields(part)
		if len(fs) < 2 {
			ps = append(ps, specParam{Name: fs[0], Type: "int"})
			continue
		}
		ps = append(ps, specParam{Name: fs[0], Type: strings.Join(fs[1:], " ")})
	}
	return ps
}

func (db *ContractDB) parseFile(pkg, file, text string) {
	var cur *FuncContract
	lines := strings.Split(text, "\n")
	// gather logical lines (continuations start with "..")
	type ll struct {
		text string
		line int
	}
	var logical []ll
	for i, raw := range lines {
		t := strings.TrimSpace(raw)
		var body string
		if strings.HasPrefix(t, "//@") {
			body = strings.TrimSpace(t[3:])
		} else if strings.HasPrefix(t, "// @") {
			body = strings.TrimSpace(t[4:])
		} else {
			continue
		}
		if strings.HasPrefix(body, "..") && len(logical) > 0 {
			logical[len(logical)-1].text += " " + strings.TrimSpace(body[2:])
			continue
		}
		logical = append(logical, ll{body, i + 1})
	}
	errf := func(line int, format string, args ...any) {
		db.Errors = append(db.Errors, fmt.Sprintf("%s:%d: %s", file, line, fmt.Sprintf(format, args...)))
	}
	for _, l := range logical {
		fs := strings.Fields(l.text)
		if len(fs) == 0 {
			continue
		}
		rest := strings.TrimSpace(strings.TrimPrefix(l.text, fs[0]))
		switch fs[0] {
		case "func":
			key := pkg + "." + rest
			cur = &FuncContract{Key: key, Pkg: pkg, Mode: "inline", File: file, Line: l.line}
			db.Funcs[key] = cur
		case "impl":
			// impl Interface *Type
			if len(fs) != 3 {
				errf(l.line, "bad impl declaration")
				continue
			}
			if db.Impls == nil {
				db.Impls = map[string]string{}
			}
			db.Impls[pkg+"."+fs[1]] = fs[2]
			cur = nil
		case "valid":
			// valid TypeName v: expr
			label, src := splitLabel(strings.TrimSpace(strings.TrimPrefix(rest, fs[1])))
			e, err := parseSpecExpr(src)
			if err != nil || label == "" {
				errf(l.line, "bad valid declaration")
				continue
			}
			db.Valid[pkg+"."+strings.TrimPrefix(fs[1], "*")] = &ValidDecl{Pkg: pkg, Type: strings.TrimPrefix(fs[1], "*"), Var: label, Src: src, Expr: e}
			cur = nil
		case "mode":
			if cur != nil {
				cur.Mode = rest
			}
		case "requires", "ensures", "domain":
			// domain label: expr - a precondition that delimits the inputs the functional clauses speak about (the
			// property's stated domain). It is assumed when the function itself is verified, but callers are NOT obliged
			// to establish it: a caller that inlines the function gets it without its contract (safety obligations
			// only), a caller that uses the contract may assume the postconditions only where the domain held.
			if cur == nil {
				errf(l.line, "clause outside func")
				continue
			}
			label, src := splitLabel(rest)
			e, err := parseSpecExpr(src)
			if err != nil {
				errf(l.line, "parse %q: %v", src, err)
				continue
			}
			if label == "" {
				label = fmt.Sprintf("L%d", l.line)
			}
			c := Clause{Kind: fs[0], Label: label, Src: src, Expr: e, Line: l.line}
			if fs[0] == "requires" || fs[0] == "domain" {
				cur.Requires = append(cur.Requires, c)
			} else {
				parts := splitConj(e)
				if len(parts) == 1 {
					cur.Ensures = append(cur.Ensures, c)
				} else {
					for i, pe := range parts {
						cur.Ensures = append(cur.Ensures, Clause{Kind: fs[0], Label: fmt.Sprintf("%s/%d", label, i+1), Src: src, Expr: pe, Line: l.line})
					}
				}
			}
		case "modifies":
			if cur == nil {
				continue
			}
			cur.HasMod = true
			for _, part := range splitTop(rest, ',') {
				part = strings.TrimSpace(part)
				if part == "" || part == "nothing" {
					continue
				}
				e, err := parser.ParseExpr(part)
				if err != nil {
					errf(l.line, "parse modifies %q: %v", part, err)
					continue
				}
				cur.Modifies = append(cur.Modifies, e)
				cur.ModSrc = append(cur.ModSrc, part)
			}
		case "precall":
			// precall <callee>[#n] <label>: <expr>   (arguments of the call are arg0, arg1, ...)
			if cur == nil || len(fs) < 3 {
				errf(l.line, "bad precall clause")
				continue
			}
			callee, nth := fs[1], 0
			if i := strings.Index(callee, "#"); i >= 0 {
				nth, _ = strconv.Atoi(callee[i+1:])
				callee = callee[:i]
			}
			r := strings.TrimSpace(l.text[strings.Index(l.text, fs[1])+len(fs[1]):])
			label, src := splitLabel(r)
			e, err := parseSpecExpr(src)
			if err != nil || label == "" {
				errf(l.line, "parse precall %q: %v", src, err)
				continue
			}
			cur.PreCalls = append(cur.PreCalls, PreCall{Callee: callee, Nth: nth, Label: label, Src: src, Expr: e, Line: l.line})
		case "focus":
			if cur != nil {
				label, src := splitLabel(rest)
				if label == "" {
					errf(l.line, "bad focus clause")
					continue
				}
				if cur.Focus == nil {
					cur.Focus = map[string][]string{}
				}
				cur.Focus[label] = append(cur.Focus[label], strings.Fields(strings.ReplaceAll(src, ",", " "))...)
			}
		case "ghost":
			label, src := splitLabel(rest)
			gf := strings.Fields(src)
			if cur == nil || label == "" || len(gf) != 2 {
				errf(l.line, "bad ghost clause (ghost name: callee argK|resultK)")
				continue
			}
			g := GhostDef{Name: label, Callee: gf[0], Arg: -1, Res: -1, Line: l.line}
			if strings.HasPrefix(gf[1], "ghost.") {
				g.GhostOf = gf[1][6:]
			} else if strings.HasPrefix(gf[1], "arg") {
				g.Arg, _ = strconv.Atoi(gf[1][3:])
			} else if strings.HasPrefix(gf[1], "result") {
				g.Res, _ = strconv.Atoi(gf[1][6:])
			} else {
				errf(l.line, "bad ghost clause (ghost name: callee argK|resultK)")
				continue
			}
			cur.Ghosts = append(cur.Ghosts, g)
		case "postuse":
			if cur != nil {
				e, err := parser.ParseExpr(rest)
				if err != nil {
					errf(l.line, "parse postuse %q: %v", rest, err)
					continue
				}
				cur.PostUses = append(cur.PostUses, rest)
				cur.PostUseExprs = append(cur.PostUseExprs, e)
			}
		case "use":
			if cur != nil {
				e, err := parser.ParseExpr(rest)
				if err != nil {
					errf(l.line, "parse use %q: %v", rest, err)
					continue
				}
				cur.Uses = append(cur.Uses, rest)
				cur.UseExprs = append(cur.UseExprs, e)
			}
		case "loop":
			if cur == nil || len(fs) < 3 {
				errf(l.line, "bad loop clause")
				continue
			}
			n, err := strconv.Atoi(fs[1])
			if err != nil {
				errf(l.line, "bad loop ordinal")
				continue
			}
			kind := fs[2]
			r := strings.TrimSpace(l.text[strings.Index(l.text, kind)+len(kind):])
			label, src := "", r
			if kind == "invariant" {
				label, src = splitLabel(r)
				if label == "" {
					label = fmt.Sprintf("L%d", l.line)
				}
			} else {
				label = "variant"
			}
			e, err := parseSpecExpr(src)
			if err != nil {
				errf(l.line, "parse %q: %v", src, err)
				continue
			}
			if kind == "invariant" {
				parts := splitConj(e)
				if len(parts) > 1 {
					for i, pe := range parts {
						cur.Loops = append(cur.Loops, LoopClause{Loop: n, Kind: kind, Label: fmt.Sprintf("%s/%d", label, i+1), Src: src, Expr: pe, Line: l.line})
					}
					continue
				}
			}
			cur.Loops = append(cur.Loops, LoopClause{Loop: n, Kind: kind, Label: label, Src: src, Expr: e, Line: l.line})
		case "spec":
			// spec name(params) ret = body
			open := strings.Index(rest, "(")
			eqi := strings.Index(rest, "=")
			if open < 0 || eqi < 0 {
				errf(l.line, "bad spec")
				continue
			}
			// find matching close paren of params
			d := 0
			closeIdx := -1
			for i := open; i < len(rest); i++ {
				if rest[i] == '(' {
					d++
				} else if rest[i] == ')' {
					d--
					if d == 0 {
						closeIdx = i
						break
					}
				}
			}
			if closeIdx < 0 {
				errf(l.line, "bad spec params")
				continue
			}
			after := rest[closeIdx+1:]
			eqi = strings.Index(after, "=")
			sf := &SpecFunc{Name: strings.TrimSpace(rest[:open]), Pkg: pkg, Params: parseParams(rest[open+1 : closeIdx]),
				Ret: strings.TrimSpace(after[:eqi]), BodySrc: strings.TrimSpace(after[eqi+1:]), File: file, Line: l.line}
			if i := strings.Index(sf.Ret, " reads "); i >= 0 {
				rd := strings.TrimSpace(sf.Ret[i+7:])
				sf.Ret = strings.TrimSpace(sf.Ret[:i])
				// d[lo:hi]
				if j := strings.Index(rd, "["); j > 0 && strings.HasSuffix(rd, "]") {
					sf.ReadsParam = rd[:j]
					parts := strings.SplitN(rd[j+1:len(rd)-1], ":", 2)
					if len(parts) == 2 {
						sf.ReadsLo, sf.ReadsHi = strings.TrimSpace(parts[0]), strings.TrimSpace(parts[1])
					}
				}
			}
			e, err := parseSpecExpr(sf.BodySrc)
			if err != nil {
				errf(l.line, "parse spec body: %v", err)
				continue
			}
			sf.Body = e
			db.Specs[pkg+"."+sf.Name] = sf
			cur = nil
		case "lemma":
			// lemma name(params): stmt by induction i from lo [given hyp; hyp]
			open := strings.Index(rest, "(")
			closeIdx := strings.Index(rest, "):")
			if open < 0 || closeIdx < 0 {
				errf(l.line, "bad lemma")
				continue
			}
			lm := &Lemma{Name: strings.TrimSpace(rest[:open]), Pkg: pkg, Params: parseParams(rest[open+1 : closeIdx]), File: file, Line: l.line}
			body := strings.TrimSpace(rest[closeIdx+2:])
			if i := strings.Index(body, " trigger "); i >= 0 {
				lm.TriggerSrc = strings.TrimSpace(body[i+len(" trigger "):])
				body = strings.TrimSpace(body[:i])
				if te, err := parseSpecExpr(lm.TriggerSrc); err == nil {
					lm.Trigger = te
				} else {
					errf(l.line, "parse trigger: %v", err)
				}
			}
			if i := strings.Index(body, " by induction "); i >= 0 {
				tail := strings.Fields(body[i+len(" by induction "):])
				body = strings.TrimSpace(body[:i])
				if len(tail) >= 1 {
					lm.IndVar = tail[0]
				}
				if len(tail) >= 3 && tail[1] == "from" {
					lm.From = tail[2]
				}
			}
			lm.StmtSrc = body
			e, err := parseSpecExpr(body)
			if err != nil {
				errf(l.line, "parse lemma: %v", err)
				continue
			}
			lm.Stmt = e
			db.Lemmas[pkg+"."+lm.Name] = lm
			cur = nil
		default:
			errf(l.line, "unknown directive %q", fs[0])
		}
	}
}

func (db *ContractDB) sortedFuncs() []string {
	var ks []string
	for k := range db.Funcs {
		ks = append(ks, k)
	}
	sort.Strings(ks)
	return ks
}
