package main

import (
	"fmt"
	"go/ast"
	"go/token"
	"go/types"
	"strings"

	"golang.org/x/tools/go/ssa"
)

// goTranslator turns a specification clause into Go source evaluated inside a replay test of the function's package.
type goTranslator struct {
	u       *Unit
	fn      *ssa.Function
	pkg     *types.Package
	qual    types.Qualifier
	vars    map[string]goVar // identifiers in scope
	specs   map[string]bool  // spec functions that must be emitted
	specSrc []string
	imports map[string]bool
	fail    string
	needAlias bool
}

type goVar struct {
	src string
	typ types.Type // nil: untyped / unknown
	old string     // source of the pre-state snapshot ("" if none)
}

type goVal struct {
	src     string
	typ     types.Type
	untyped bool
}

type goFail struct{ msg string }

func (g *goTranslator) failf(format string, args ...any) { panic(goFail{fmt.Sprintf(format, args...)}) }

func (g *goTranslator) typeStr(t types.Type) string { return types.TypeString(t, g.qual) }

func (g *goTranslator) translate(e ast.Expr, old bool, bound map[string]goVar) (out goVal) {
	switch n := e.(type) {
	case *ast.ParenExpr:
		v := g.translate(n.X, old, bound)
		return goVal{src: "(" + v.src + ")", typ: v.typ, untyped: v.untyped}
	case *ast.BasicLit:
		return goVal{src: n.Value, untyped: true}
	case *ast.Ident:
		if v, ok := bound[n.Name]; ok {
			return goVal{src: v.src, typ: v.typ}
		}
		switch n.Name {
		case "true", "false":
			return goVal{src: n.Name, typ: types.Typ[types.Bool]}
		case "nil":
			return goVal{src: "nil", untyped: true}
		}
		if v, ok := g.vars[n.Name]; ok {
			if old {
				if v.old == "" {
					g.failf("no snapshot of %s", n.Name)
				}
				return goVal{src: v.old, typ: v.typ}
			}
			return goVal{src: v.src, typ: v.typ}
		}
		if obj := g.pkg.Scope().Lookup(n.Name); obj != nil {
			switch o := obj.(type) {
			case *types.Const:
				return goVal{src: n.Name, typ: o.Type()}
			case *types.Var:
				return goVal{src: n.Name, typ: o.Type()}
			}
		}
		g.failf("identifier %s", n.Name)
	case *ast.UnaryExpr:
		v := g.translate(n.X, old, bound)
		return goVal{src: n.Op.String() + "(" + v.src + ")", typ: v.typ, untyped: v.untyped}
	case *ast.StarExpr:
		v := g.translate(n.X, old, bound)
		if pt, ok := v.typ.Underlying().(*types.Pointer); ok {
			return goVal{src: "(*" + v.src + ")", typ: pt.Elem()}
		}
		g.failf("deref")
	case *ast.BinaryExpr:
		a := g.translate(n.X, old, bound)
		b := g.translate(n.Y, old, bound)
		var t types.Type
		switch n.Op {
		case token.EQL, token.NEQ, token.LSS, token.LEQ, token.GTR, token.GEQ, token.LAND, token.LOR:
			t = types.Typ[types.Bool]
			// comparing values of different named types: convert the right operand
			if a.typ != nil && b.typ != nil && !a.untyped && !b.untyped && !types.Identical(a.typ, b.typ) {
				if types.ConvertibleTo(b.typ, a.typ) {
					b.src = fmt.Sprintf("%s(%s)", g.typeStr(a.typ), b.src)
				}
			}
			if n.Op == token.EQL || n.Op == token.NEQ {
				if a.typ != nil && !types.Comparable(a.typ) && b.src != "nil" {
					g.failf("comparison of non-comparable values")
				}
			}
		case token.SHL, token.SHR:
			t = a.typ
		default:
			t = a.typ
			if a.untyped {
				t = b.typ
			}
		}
		return goVal{src: "(" + a.src + " " + n.Op.String() + " " + b.src + ")", typ: t, untyped: a.untyped && b.untyped}
	case *ast.SelectorExpr:
		if id, ok := n.X.(*ast.Ident); ok {
			_, isVar := g.vars[id.Name]
			_, isBound := bound[id.Name]
			if !isVar && !isBound {
				// package-qualified object
				for _, imp := range g.pkg.Imports() {
					if imp.Name() == id.Name {
						if obj := imp.Scope().Lookup(n.Sel.Name); obj != nil {
							g.imports[imp.Path()] = true
							return goVal{src: id.Name + "." + n.Sel.Name, typ: obj.Type()}
						}
					}
				}
				for _, sp := range g.u.prog.SSA.AllPackages() {
					if sp.Pkg.Name() == id.Name && strings.HasPrefix(sp.Pkg.Path(), modRoot) {
						if obj := sp.Pkg.Scope().Lookup(n.Sel.Name); obj != nil {
							g.imports[sp.Pkg.Path()] = true
							return goVal{src: id.Name + "." + n.Sel.Name, typ: obj.Type()}
						}
					}
				}
			}
		}
		base := g.translate(n.X, old, bound)
		if base.typ == nil {
			g.failf("selector on unknown type")
		}
		obj, _, _ := types.LookupFieldOrMethod(base.typ, true, g.pkg, n.Sel.Name)
		fv, ok := obj.(*types.Var)
		if !ok {
			g.failf("field %s not accessible from package %s", n.Sel.Name, g.pkg.Name())
		}
		return goVal{src: base.src + "." + n.Sel.Name, typ: fv.Type()}
	case *ast.IndexExpr:
		base := g.translate(n.X, old, bound)
		idx := g.translate(n.Index, old, bound)
		if base.typ == nil {
			g.failf("index of unknown type")
		}
		switch t := base.typ.Underlying().(type) {
		case *types.Slice:
			return goVal{src: base.src + "[" + idx.src + "]", typ: t.Elem()}
		case *types.Array:
			return goVal{src: base.src + "[" + idx.src + "]", typ: t.Elem()}
		case *types.Basic:
			return goVal{src: base.src + "[" + idx.src + "]", typ: types.Typ[types.Uint8]}
		case *types.Map:
			return goVal{src: base.src + "[" + idx.src + "]", typ: t.Elem()}
		}
		g.failf("index of %s", base.typ)
	case *ast.SliceExpr:
		base := g.translate(n.X, old, bound)
		lo, hi := "", ""
		if n.Low != nil {
			lo = g.translate(n.Low, old, bound).src
		}
		if n.High != nil {
			hi = g.translate(n.High, old, bound).src
		}
		return goVal{src: base.src + "[" + lo + ":" + hi + "]", typ: base.typ}
	case *ast.CallExpr:
		return g.call(n, old, bound)
	}
	g.failf("expression %T", e)
	return
}

func withBound(bound map[string]goVar, name string, v goVar) map[string]goVar {
	nb := map[string]goVar{}
	for k, x := range bound {
		nb[k] = x
	}
	nb[name] = v
	return nb
}

func (g *goTranslator) call(n *ast.CallExpr, old bool, bound map[string]goVar) goVal {
	name := ""
	if id, ok := n.Fun.(*ast.Ident); ok {
		name = id.Name
	}
	tr := func(i int) goVal { return g.translate(n.Args[i], old, bound) }
	boolT := types.Typ[types.Bool]
	if t, ok := convNames[name]; ok {
		return goVal{src: fmt.Sprintf("%s(%s)", name, tr(0).src), typ: t}
	}
	switch name {
	case "len", "cap":
		return goVal{src: fmt.Sprintf("%s(%s)", name, tr(0).src), typ: types.Typ[types.Int]}
	case "old":
		return g.translate(n.Args[0], true, bound)
	case "implies":
		return goVal{src: fmt.Sprintf("(!(%s) || (%s))", tr(0).src, tr(1).src), typ: boolT}
	case "iff":
		return goVal{src: fmt.Sprintf("((%s) == (%s))", tr(0).src, tr(1).src), typ: boolT}
	case "ite":
		c, a, b := tr(0), tr(1), tr(2)
		t := a.typ
		if a.untyped || t == nil {
			t = b.typ
		}
		ts := "int"
		if t != nil {
			ts = g.typeStr(t)
		}
		return goVal{src: fmt.Sprintf("func() %s { if %s { return %s }; return %s }()", ts, c.src, a.src, b.src), typ: t}
	case "forall", "exists":
		id := n.Args[0].(*ast.Ident)
		lo, hi := tr(1), tr(2)
		nb := withBound(bound, id.Name, goVar{src: id.Name, typ: types.Typ[types.Int]})
		body := g.translate(n.Args[3], old, nb)
		if name == "forall" {
			return goVal{src: fmt.Sprintf("func() bool { for %s := int(%s); %s < int(%s); %s++ { if !(%s) { return false } }; return true }()", id.Name, lo.src, id.Name, hi.src, id.Name, body.src), typ: boolT}
		}
		return goVal{src: fmt.Sprintf("func() bool { for %s := int(%s); %s < int(%s); %s++ { if %s { return true } }; return false }()", id.Name, lo.src, id.Name, hi.src, id.Name, body.src), typ: boolT}
	case "allbytes":
		id := n.Args[0].(*ast.Ident)
		s := tr(1)
		nb := withBound(bound, id.Name, goVar{src: id.Name, typ: types.Typ[types.Uint8]})
		body := g.translate(n.Args[2], old, nb)
		return goVal{src: fmt.Sprintf("func() bool { for _, %s := range []byte(%s) { if !(%s) { return false } }; return true }()", id.Name, s.src, body.src), typ: boolT}
	case "be16", "be32", "be64":
		bits := map[string]string{"be16": "16", "be32": "32", "be64": "64"}[name]
		g.imports["encoding/binary"] = true
		t := map[string]types.Type{"be16": types.Typ[types.Uint16], "be32": types.Typ[types.Uint32], "be64": types.Typ[types.Uint64]}[name]
		return goVal{src: fmt.Sprintf("binary.BigEndian.Uint%s([]byte(%s)[%s:])", bits, tr(0).src, tr(1).src), typ: t}
	case "bit":
		return goVal{src: fmt.Sprintf("(((%s) >> %s) & 1 == 1)", tr(0).src, tr(1).src), typ: boolT}
	case "mention":
		return goVal{src: "true", typ: boolT}
	case "deepeq":
		if len(n.Args) != 2 {
			g.failf("deepeq with skipped fields has no run-time counterpart")
		}
		g.imports["reflect"] = true
		return goVal{src: fmt.Sprintf("reflect.DeepEqual(%s, %s)", tr(0).src, tr(1).src), typ: boolT}
	case "iserr":
		g.imports["errors"] = true
		return goVal{src: fmt.Sprintf("errors.Is(%s, %s)", tr(0).src, tr(1).src), typ: boolT}
	case "disjoint", "within":
		g.imports["unsafe"] = true
		g.needAlias = true
		return goVal{src: fmt.Sprintf("govc%s(%s, %s)", strings.Title(name), tr(0).src, tr(1).src), typ: boolT}
	case "fresh", "ptr", "buflen", "bufat", "bufopen", "eqbytes", "oldbytes", "forallb", "existsb", "forallint", "existsint", "instant", "clock", "visited", "forallkey", "existskey", "oncedone", "allocated", "sent", "closed", "lastsent", "samekey", "forallstr", "existsstr":
		g.failf("builtin %s has no run-time counterpart", name)
	}
	// spec function
	key := shortPkg(g.pkg.Path()) + "." + name
	sf := g.u.db.Specs[key]
	if sf == nil {
		g.failf("unknown function %s", name)
	}
	g.emitSpec(sf)
	var args []string
	for i := range n.Args {
		args = append(args, tr(i).src)
	}
	env := &Env{u: g.u}
	return goVal{src: fmt.Sprintf("govcSpec_%s(%s)", sf.Name, strings.Join(args, ", ")), typ: env.specType(sf.Pkg, sf.Ret)}
}

func (g *goTranslator) emitSpec(sf *SpecFunc) {
	if g.specs[sf.Name] {
		return
	}
	g.specs[sf.Name] = true
	env := &Env{u: g.u}
	bound := map[string]goVar{}
	var params []string
	for _, p := range sf.Params {
		t := env.specType(sf.Pkg, p.Type)
		bound[p.Name] = goVar{src: p.Name, typ: t}
		params = append(params, p.Name+" "+g.typeStr(t))
	}
	rt := env.specType(sf.Pkg, sf.Ret)
	body := g.translate(sf.Body, false, bound)
	g.specSrc = append(g.specSrc, fmt.Sprintf("func govcSpec_%s(%s) %s { return %s(%s) }\n", sf.Name, strings.Join(params, ", "), g.typeStr(rt), g.typeStr(rt), body.src))
}

// clauseToGo translates clause expression e; ok=false with the reason when it cannot be evaluated at run time.
func (g *goTranslator) clauseToGo(e ast.Expr) (src string, reason string) {
	defer func() {
		if r := recover(); r != nil {
			switch x := r.(type) {
			case goFail:
				src, reason = "", x.msg
			case specError:
				src, reason = "", x.msg
			default:
				panic(r)
			}
		}
	}()
	v := g.translate(e, false, map[string]goVar{})
	return v.src, ""
}

const govcCloneHelper = `func govcClone(v any) any {
	if v == nil {
		return nil
	}
	seen := map[uintptr]reflect.Value{}
	return govcCloneVal(reflect.ValueOf(v), seen).Interface()
}

func govcCloneVal(v reflect.Value, seen map[uintptr]reflect.Value) reflect.Value {
	switch v.Kind() {
	case reflect.Ptr:
		if v.IsNil() {
			return v
		}
		if c, ok := seen[v.Pointer()]; ok {
			return c
		}
		n := reflect.New(v.Type().Elem())
		seen[v.Pointer()] = n
		n.Elem().Set(govcCloneVal(v.Elem(), seen))
		return n
	case reflect.Slice:
		if v.IsNil() {
			return v
		}
		n := reflect.MakeSlice(v.Type(), v.Len(), v.Cap())
		for i := 0; i < v.Len(); i++ {
			n.Index(i).Set(govcCloneVal(v.Index(i), seen))
		}
		return n
	case reflect.Map:
		if v.IsNil() {
			return v
		}
		n := reflect.MakeMap(v.Type())
		for _, k := range v.MapKeys() {
			n.SetMapIndex(k, govcCloneVal(v.MapIndex(k), seen))
		}
		return n
	case reflect.Struct:
		n := reflect.New(v.Type()).Elem()
		for i := 0; i < v.NumField(); i++ {
			src := v.Field(i)
			dst := n.Field(i)
			if !dst.CanSet() {
				dst = reflect.NewAt(dst.Type(), unsafe.Pointer(dst.UnsafeAddr())).Elem()
			}
			if !src.CanInterface() {
				if src.CanAddr() {
					src = reflect.NewAt(src.Type(), unsafe.Pointer(src.UnsafeAddr())).Elem()
				} else {
					tmp := reflect.New(v.Type()).Elem()
					tmp.Set(v)
					src = reflect.NewAt(tmp.Field(i).Type(), unsafe.Pointer(tmp.Field(i).UnsafeAddr())).Elem()
				}
			}
			dst.Set(govcCloneVal(src, seen))
		}
		return n
	case reflect.Array:
		n := reflect.New(v.Type()).Elem()
		for i := 0; i < v.Len(); i++ {
			n.Index(i).Set(govcCloneVal(v.Index(i), seen))
		}
		return n
	}
	return v
}

`


const govcAliasHelper = `func govcRange(s []byte) (uintptr, uintptr) {
	if cap(s) == 0 {
		return 0, 0
	}
	p := uintptr(unsafe.Pointer(unsafe.SliceData(s)))
	return p, p + uintptr(cap(s))
}

func govcDisjoint(a, b []byte) bool {
	al, ah := govcRange(a)
	bl, bh := govcRange(b)
	return al == ah || bl == bh || ah <= bl || bh <= al
}

func govcWithin(a, b []byte) bool {
	al, ah := govcRange(a)
	bl, bh := govcRange(b)
	return al == ah || (bl <= al && ah <= bh)
}

`
