package main

func init() {
	for _, id := range []string{"C01", "C02", "C04", "C05", "C06", "C07", "C08", "C09", "C10", "C11", "C14", "C15", "C16", "C19", "C20"} {
		notApplicable[id] = "not yet claimed: contracts for this property are still being written (see DESIGN.md); no check is registered"
	}
	notApplicable["C12"] = "command/response matching lives in goroutine, channel and timer interplay (onActiveEvent/onActiveRespondEvent/write); no sequential function contract within the verifier's subset carries the claim"
	notApplicable["C13"] = "a statement about channel closure and blocked callers under all schedules; contracts over sequential semantics cannot state it"
	notApplicable["C18"] = "data-race freedom is a property of schedules; the deductive verifier models one goroutine's sequential semantics only"

	registerProp(&PropDef{
		ID:    "C17",
		Title: "JT1078 RTP packets are decoded as the standard prescribes",
		Roots: []string{"jt1078.(*Packet).Decode", "jt1078.(*Packet).decodeHead"},
		Decided: "full functional contract of Packet.Decode/decodeHead (error classification, every header field by offset and bit, " +
			"payload and remainder slices) plus absence of panics and over-reads, for all inputs and any prior receiver state",
		Undecided: []string{"the concatenation claim follows from the remainder clause by induction on the number of packets (pen-and-paper step)"},
	})
}

func init() {
	registerProp(&PropDef{
		ID:    "C03",
		Title: "Decoders are total functions of their input",
		Roots: []string{
			`re:^model\.\(\*[A-Za-z0-9]+\)\.Parse$`,
			"jt808.(*JTMessage).Decode", "jt808.unescape", "jt808.(*Header).decode", "jt808.(*BodyProperty).decode",
			"jt1078.(*Packet).Decode", "jt1078.(*Packet).decodeHead",
			"utils.Bcd2Dec", "utils.bcdConvert", "utils.BCD2Time", "utils.CreateVerifyCode", "utils.nibbleToHexChar",
		},
		Exclude: []string{`BaseHandle`},
		Decided: "for every decoder listed: every implicit panic site (index, slice, nil, conversion, map, division), every read beyond len(slice) and " +
			"termination of every loop, as obligations over fully symbolic input bytes, header version, dialect and prior receiver state",
		Undecided: []string{"String()/Encode() rendering of parsed values (thorough tier adds them as roots when modelled)",
			"receiver-independence is decided only where a functional postcondition (C07/C08/C17 clauses) pins every field"},
		Assume: []string{"user hooks (CustomAdditionContentFunc, ParamParseBeforeFunc) are nil: the default configuration"},
	})
}
