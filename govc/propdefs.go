package main

func init() {
	notApplicable["C12"] = "command/response matching lives in goroutine, channel and timer interplay (onActiveEvent/onActiveRespondEvent/write); no sequential function contract within the verifier's subset carries the claim"
	notApplicable["C13"] = "a statement about channel closure and blocked callers under all schedules; contracts over sequential semantics cannot state it"
	notApplicable["C18"] = "data-race freedom is a property of schedules; the deductive verifier models one goroutine's sequential semantics only"

	registerProp(&PropDef{
		ID:    "C17",
		Title: "JT1078 RTP packets are decoded as the standard prescribes",
		Roots: []string{"jt1078.(*Packet).Decode", "jt1078.(*Packet).decodeHead"},
		Decided: "full functional contract of Packet.Decode/decodeHead (error classification, every header field by offset and bit, " +
			"payload and remainder slices) plus absence of panics and over-reads, for all inputs and any prior receiver state",
		Undecided: []string{"the concatenation claim follows from the remainder clause by induction on the number of packets (pen-and-paper step)"},
	})
}

func init() {
	registerProp(&PropDef{
		ID:    "C03",
		Title: "Decoders are total functions of their input",
		Roots: []string{
			`re:^model\.\(\*[A-Za-z0-9]+\)\.Parse$`,
			"jt808.(*JTMessage).Decode", "jt808.unescape", "jt808.(*Header).decode", "jt808.(*BodyProperty).decode",
			"jt1078.(*Packet).Decode", "jt1078.(*Packet).decodeHead",
			"utils.Bcd2Dec", "utils.bcdConvert", "utils.BCD2Time", "utils.CreateVerifyCode", "utils.nibbleToHexChar",
		},
		Exclude: []string{`BaseHandle`},
		Decided: "for every decoder listed: every implicit panic site (index, slice, nil, conversion, map, division), every read beyond len(slice) and " +
			"termination of every loop, as obligations over fully symbolic input bytes, header version, dialect and prior receiver state",
		Undecided: []string{"String()/Encode() rendering of parsed values (thorough tier adds them as roots when modelled)",
			"receiver-independence is decided only where a functional postcondition (C07/C08/C17 clauses) pins every field"},
		Assume: []string{"user hooks (CustomAdditionContentFunc, ParamParseBeforeFunc) are nil: the default configuration"},
	})
}

func init() {
	registerProp(&PropDef{
		ID:    "C08",
		Title: "Location reports are decoded as the standard prescribes",
		Roots: []string{"model.(*T0x0200AdditionDetails).parseTirePressure", 
			"model.(*AlarmSignDetails).parse", "model.(*StatusSignDetails).parse", "model.(*T0x0200LocationItem).parse",
			"model.(*T0x0200AdditionDetails).parseExtendVehicleStatus", "model.(*T0x0200AdditionDetails).parseIOStatus",
			"model.(*T0x0200AdditionDetails).decode", "model.(*T0x0200AdditionDetails).parse",
			"utils.BCD2Time", "model.(*T0x0704).Parse",
		},
		Decided: "tyre-pressure item 0x05: tyre k has a value exactly when byte k is non-zero and the value is that byte (all 256 keys); in a 0x0704 batch every item is decoded into its own record (the additional-information table of the item being appended is not the table of an earlier item); offsets and byte order of the 28-byte base block, the BCD time rendering, each of the 32 alarm flags, 21 single-bit status flags, " +
			"15 extended-vehicle-signal flags and 2 IO flags as 'field is true exactly when its bit is set', for all inputs and any prior receiver state",
		Undecided: []string{"the two-bit Cargo field is not claimed (the property covers single-bit flags)"},
	})
}

func init() {
	registerProp(&PropDef{
		ID:    "C02",
		Title: "Frame validation: exactly the well-formed frames are accepted",
		Roots: []string{
			"jt808.unescape", "lemma:jt808.ecZero", "lemma:jt808.ecBound", "framelemma:jt808.ec", "framelemma:utils.xorfold",
			"jt808.(*BodyProperty).decode", "jt808.(*Header).decode", "jt808.(*JTMessage).Decode",
			"utils.CreateVerifyCode", "utils.Bcd2Dec", "utils.bcdConvert", "utils.nibbleToHexChar",
		},
		Decided: "general acceptance (frames with escapes included), over the ghost unescaped text u of Decode: a frame is accepted iff it is well-formed (delimiters, escape pairs) and u passes the XOR, header-length and body-length checks, and every decoded field is read from u at the offsets of the standard; unescape accepts exactly the strings with both delimiters and valid escape pairs (one tolerated trailing 0x7d) and returns the unescaped payload " +
			"(content clause over a recursive counting function, two induction lemmas); Header.decode / BodyProperty.decode accept exactly complete headers and " +
			"return every field as the standard lays it out; Decode composes them with the XOR and length checks; Bcd2Dec renders hex digits",
		Undecided: []string{"for frames that contain escape pairs the field clauses of Decode are stated over the unescaped payload returned by unescape (whose content clause is proved), not re-expressed over the raw frame"},
	})
	registerProp(&PropDef{
		ID:    "C01",
		Title: "Frame encode/decode round trip and delimiter transparency",
		Roots: []string{
			"jt808.escape", "lemma:jt808.scBound", "jt808.unescape", "lemma:jt808.ecZero", "lemma:jt808.ecBound",
			"framelemma:jt808.ec", "framelemma:jt808.sc", "framelemma:utils.xorfold",
			"jt808.(*BodyProperty).encode", "jt808.(*BodyProperty).decode", "jt808.(*Header).Encode", "jt808.(*Header).decode",
			"jt808.(*JTMessage).Decode", "utils.CreateVerifyCode",
			"jt808.rtMessage", "jt808.rtEscape", "jt808.rtUnescape",
			"lemma:jt808.link", "lemma:jt808.prev", "lemma:jt808.scMono", "lemma:jt808.xcong",
		},
		Decided: "end to end (harness rtMessage = Decode(Encode(h, body)) on the real functions, both by contract): for every header as Header.decode produces it (2013/2019, " +
			"any fragment/encrypt/reserved bits, any BCD phone, any IDs and serials) and every body of 0..1023 bytes the frame is accepted and yields the reply ID, the phone bytes, the " +
			"protocol version, the platform serial and a byte-identical body; " +
			"escape: 0x7e occurs only as first and last byte, every input byte is placed (plain or as its pair) at the index given by the counting function, length; " +
			"unescape: inverse content clause; unescape(escape(d)) == d for every non-empty d (harness rtEscape; lemmas link, prev, scMono by induction); " +
			"property-word bit layout of encode/decode; Header.Encode: its payload (ghost) has the layout id, property word with the fragment bit cleared, version byte, phone, serial, body, XOR " +
			"and the result is its escaped image; Decode: accepted iff the unescaped text (ghost) passes XOR, header and length checks, every field is read from it",
		Undecided: []string{"Header.TerminalPhoneNo (the decimal string) is Bcd2Dec of the phone bytes, which are proved identical; Bcd2Dec itself is outside C01's contracts",
			"escape of the empty payload yields 7e 7e, which unescape rejects: the composition lemma is stated for non-empty payloads (Encode's payload has at least 13 bytes)"},
	})
}

func init() {
	registerProp(&PropDef{
		ID:    "C05",
		Title: "Sub-package reassembly delivers exactly the original message",
		Roots: []string{"service.(*packageParse).completePack", "service.(*packageParse).add", "service.(*packageParse).remove"},
		Decided: "per call of completePack: no panic for any package number/total (including 0 and numbers beyond the announced total), the table's representation invariant " +
			"is preserved, an out-of-range packet leaves the table untouched, a message is reported complete only when every slot of the record is non-empty",
		Undecided: []string{"arrival orders, duplicates and interleavings over several calls (whole-history statement)", "delivery through connection.write and the handlers (goroutines)"},
	})
}

func init() {
	registerProp(&PropDef{
		ID:    "C09",
		Title: "Delivered messages are stable",
		Roots: []string{"service.(*packageParse).unpack", "service.newTerminalMessage", "jt808.unescape", "jt808.(*JTMessage).Decode", "jt808.(*Header).decode", "service.(*packageParse).completePack"},
		Decided: "ownership clauses: the raw frame, body and BCD phone of every message returned by unpack are disjoint from the caller's read buffer and from the pending-bytes buffer " +
			"(up to its capacity, i.e. everything a later append can overwrite); unescape/Decode return sub-slices of their input or fresh storage; reassembled data is fresh",
		Undecided: []string{"the timing half of the statement (reader vs writer goroutine) is moot once disjointness holds and is not explored"},
	})
}

func init() {
	registerProp(&PropDef{
		ID:    "C06",
		Title: "Automatic replies: one per request, correctly correlated, ordered and numbered",
		Roots: []string{
			"service.(*packageParse).parse",
			"model.(*P0x8001).Encode", "model.(*BaseHandle).ReplyBody", "model.(*BaseHandle).ReplyProtocol", "model.(*BaseHandle).HasReply",
			"model.(*T0x0001).HasReply", "model.(*T0x0104).HasReply", "model.(*T0x0805).HasReply", "model.(*T0x1205).HasReply", "model.(*T0x1206).HasReply",
			"model.(*T0x0002).ReplyProtocol", "model.(*T0x0100).ReplyProtocol", "model.(*T0x0801).ReplyProtocol", "model.(*T0x1210).ReplyProtocol", "model.(*T0x1212).ReplyProtocol",
			"model.(*T0x0102).ReplyBody", "model.(*P0x8100).Encode", "model.(*T0x0100).ReplyBody", "model.(*T0x0801).ReplyBody",
			"service.(*connection).curSeq",
		},
		Decided: "order within one read (packageParse.parse): a message completed from sub-packages directly follows the sub-package that completed it in the list handed to the reader loop, so its reply precedes those of later frames of the same read; reply bodies (general response echoing serial and ID with result 0; authentication result 0 exactly when the code equals the phone number; registration response with serial, 0 and the phone as code; " +
			"multimedia response echoing the multimedia ID), reply IDs and has-reply flags per type, and the serial counter (value used, then +1 modulo 2^16)",
		Undecided: []string{"one reply per request, ordering and callbacks across reader/writer goroutines and channels", "defaultReplyEvent's dynamic dispatch through the Handler interface (the handler table is a map literal)"},
	})
}

func init() {
	registerProp(&PropDef{
		ID:    "C16",
		Title: "Attachment completion report lists exactly the missing byte ranges",
		Roots: []string{
			"attachment.(*Package).StatisticalMissSegments", "model.(*P0x9212).Encode", "model.(*P0x9212).Parse", "model.(*T0x1212).ReplyBody",
			"attachment.(*standardJT808DataHandle).OnPackageProgressEvent",
		},
		Decided: "StatisticalMissSegments for every file size and every set of received chunks inside the file (map offset->length, any count, overlapping allowed): nil exactly when CurrentSize == FileSize; " +
			"otherwise every returned range has positive length, lies inside the file, ranges are strictly ascending and non-adjacent, and every byte below FileSize that no chunk covers is in a returned range (none omitted); " +
			"the 0x9212 body carries the result flag (0 complete / 1 retransmit), the count and each (offset, length) pair big-endian at 4+n+8k; Parse reads them back from exactly those positions",
		Undecided: []string{
			"no returned range overlaps received data, and maximality (needs the converse link every-map-entry-is-a-sorted-segment through the map iteration and sort.Slice models)",
			"the 0x1212 handler is covered by two clauses only: for a known file the reply's list is recomputed on every completion (empty when the file is complete) and the stage is 'supplementary' exactly when ranges are missing; that the list it stores is the value StatisticalMissSegments returned is visible to the verifier (the call is inlined) but not restated as a clause",
			"the socket-level sequence (ranges resent, next completion response says complete)",
			"more than 255 missing ranges (count byte wraps; outside the property's stated domain)",
		},
	})
}

func init() {
	registerProp(&PropDef{
		ID:    "C14",
		Title: "Missing sub-packages are re-requested exactly, stale transfers expire",
		Roots: []string{"service.(*packageParse).parse", 
			"service.(*packageParse).supplementarySubPackage", "service.(*packageParse).deleteTimeoutPackage", "service.(*packageParse).add", "service.(*packageParse).remove",
			"service.(*packageParse).completePack", "model.(*P0x8003).Encode",
		},
		Decided: "per call, over a ghost clock that time.Now() advances monotonically: supplementarySubPackage builds, for every transfer whose last arrival is more than 5 s before the call's time.Now(), one 0x8003 body " +
			"holding the first packet's serial number (the header add() stored), the count, and exactly the package numbers of the empty slots in strictly ascending order (none missing, none extra), encoded big-endian at 3+2i, " +
			"with reply ID 0x8003 and the fragmentation bit cleared; it restarts that transfer's idle clock (so a second call within 5 s re-requests nothing for it) and leaves every other transfer's clock and the key set untouched; " +
			"deleteTimeoutPackage removes exactly the transfers begun more than 60 s before its time.Now() from both tables and keeps all others; in packageParse.parse (verified as the composition of unpack, completePack and these two, all by contract with verified frames) no pending transfer is older than 60 s when the re-requests are built; table invariants (same keys, slot count = announced total, distinct bookkeeping records) are preserved by add, remove, completePack and both functions",
		Undecided: []string{
			"that the re-request is written once to that terminal: connection.reader -> reissuePackChan -> subPackReplyEvent (goroutines, channels); parse's own composition is decided (C14.swept: the sweep precedes the re-requests)",
			"the number of returned messages equals the number of stale transfers (a cardinality over the map iteration)",
			"the returned Message's decoded header (Decode of the just-encoded frame; needs the Decode-after-Encode inverse, see C01)",
			"a discarded transfer is never delivered later: whole-history statement (per call: its slots are gone from both tables)",
		},
	})
}

func init() {
	registerProp(&PropDef{
		ID:    "C19",
		Title: "Stored attachments stay inside the terminal's directory",
		Roots: []string{"attachment.(*fileEvent).OnEvent"},
		Decided: "at the only os.WriteFile call of the default file handler: the path is \"./\" + phone + \"/\" + name for the key under which the file was recorded, and the name is a single path component " +
			"(no '/' or '\\\\', not empty, not \".\" or \"..\"), for every record map and every phone string; plus absence of panics in OnEvent for every stage and every progress record",
		Undecided: []string{
			"that record keys come verbatim from 0x1210 items (standardJT808DataHandle.OnPackageProgressEvent: interface dispatch) - the clause above holds for arbitrary keys, so it does not matter",
			"the phone string itself (BCD digits rendered by the frame decoder) is not constrained here; os.MkdirAll/WriteFile semantics (symlinks in the working directory) are outside the model",
		},
	})
}

func init() {
	registerProp(&PropDef{
		ID:    "C10",
		Title: "Hostile input is contained to its own connection (both servers)",
		Roots: []string{
			// JT808 server, reader path: frame extraction, decoding, sub-package bookkeeping
			"service.(*packageParse).unpack", "service.(*packageParse).completePack", "service.(*packageParse).deleteTimeoutPackage",
			"service.(*packageParse).supplementarySubPackage", "service.(*packageParse).add", "service.(*packageParse).remove", "service.(*packageParse).clear",
			"service.(*Message).hasComplete", "service.newTerminalMessage",
			"jt808.unescape", "jt808.(*BodyProperty).decode", "jt808.(*Header).decode", "jt808.(*JTMessage).Decode",
			"utils.CreateVerifyCode", "utils.Bcd2Dec", "utils.bcdConvert",
			// attachment server: control-frame extraction, chunk headers, completion report, end-of-session handler
			"attachment.(*PackageProgress).parseJT808Message", "attachment.(*PackageProgress).hasJT808Reply",
			"attachment.(*baseStreamDataHandle).HasStreamData", "attachment.(*baseStreamDataHandle).HasMinHeadLen", "attachment.(*baseStreamDataHandle).Parse",
			"attachment.(*baseStreamDataHandle).GetDataOffsetAndLen", "attachment.(*baseStreamDataHandle).GetFileName",
			"attachment.(*heiBiaoStreamDataHandle).HasMinHeadLen", "attachment.(*heiBiaoStreamDataHandle).Parse",
			"attachment.(*Package).StatisticalMissSegments!safety", "attachment.(*standardJT808DataHandle).OnPackageProgressEvent", "attachment.(*PackageProgress).stageStreamData",
			"attachment.(*standardJT808DataHandle).Parse",
			"attachment.(*fileEvent).OnEvent",
			"model.(*T0x1210).Parse", "model.(*T0x1211).Parse", "model.(*T0x1212).Parse", "model.(*T0x1212).ReplyBody", "model.(*P0x9212).Encode",
		},
		Decided: "absence of panics (index, slice, nil dereference, nil map write, conversion, division, make, explicit panic) and of reads beyond len() in every function listed, for every input the type system admits: " +
			"the JT808 reader path from raw bytes to messages (unpack, Decode and its helpers, sub-package table operations including package numbers 0 and beyond the total, expiry and re-request), " +
			"and the attachment server's control-frame extraction, both chunk-header parsers (given the minimum length their callers check), the missing-range computation and the 0x1212 handler for arbitrary (also inconsistent) chunk maps, " +
			"the 0x1210/0x1211/0x1212 body parsers, the 0x9212 reply, and the end-of-session file handler for every stage including a session that ends before any frame. " +
			"A panic in any of these would end the whole process, because connection goroutines have no recover. Message-body parsers called by handlers are covered by C03",
		Undecided: []string{
			"goroutine/channel code: connection.reader/write/stop, sessionManager, attachment connection.run (accept loops, close/reset timing, effects on other sessions)",
			"functions that dispatch through interfaces or call function values: PackageProgress.iter/stageStreamData/stageJT808Data, BaseJT808DataHandler.ReplyData (its precondition, the first frame's header being kept, is established by the verified handler Parse), connection.defaultReplyEvent, Message.Parse",
			"the preconditions assumed of call sites outside the verified set: OnEvent's (a message is present in non-final stages, CurrentPackage is set in chunk stages, records are non-nil), the chunk parsers' minimum length, the handler's non-nil message objects",
			"packageParse.parse as a composition (its callees are verified one by one)",
		},
	})
}

func init() {
	registerProp(&PropDef{
		ID:    "C15",
		Title: "Attachment upload: files are reassembled byte-exactly",
		Roots: []string{
			"attachment.(*baseStreamDataHandle).HasStreamData", "attachment.(*baseStreamDataHandle).HasMinHeadLen", "attachment.(*baseStreamDataHandle).Parse",
			"attachment.(*baseStreamDataHandle).GetDataOffsetAndLen", "attachment.(*baseStreamDataHandle).GetFileName",
			"attachment.(*heiBiaoStreamDataHandle).HasMinHeadLen", "attachment.(*heiBiaoStreamDataHandle).Parse",
			"attachment.(*PackageProgress).parseJT808Message", "attachment.(*PackageProgress).stageStreamData",
		},
		Decided: "chunk bookkeeping (stageStreamData, under the assumption that the handler is the standard one and chunk headers use the 62-byte layout): the chunk's bytes are recorded under its offset, the pending bytes advance past the chunk, the file's byte count changes by the chunk length minus what was recorded under that offset before (a resent chunk adds nothing), the stage is 'complete' exactly when the count equals the announced size, other files' counts and the set of records are untouched; " +
			"the classification and header kernel of the statement: the pending bytes are treated as a chunk exactly when they start with the marker 30 31 63 64, so a control frame is recognised as such whatever bytes it contains " +
			"(the statement's marker clause); the minimum header length tests; both chunk-header layouts (marker, NUL-padded 50-byte name or length-prefixed name, offset and length big-endian at their positions, header and body lengths returned); " +
			"control-frame extraction takes the bytes up to and including the first 0x7e after the first byte and leaves the rest pending; all without panics for every input",
		Undecided: []string{
			"that the byte count equals the number of distinct bytes received (it is the total length of the recorded chunks: overlapping chunks with different offsets are still counted twice), hence 'complete only when every byte has arrived' for overlapping chunks, and the byte-identical content of the assembled body (the concatenation loop over the sorted offsets is only checked for absence of panics)",
			"PackageProgress.iter (range-over-func driver), the Hei-biao dialect path through stageStreamData, any segmentation of the stream across reads",
			"each control frame answered exactly once (connection.run, goroutines and sockets)",
			"the file-name field (bytes.Trim is modelled as 'some sub-slice')",
		},
	})
}

func init() {
	registerProp(&PropDef{
		ID:    "C11",
		Title: "Session registry: at most one live connection per terminal key",
		Roots: []string{"service.(*sessionManager).join$1", "service.(*sessionManager).leave$1", "service.(*sessionManager).write$1"},
		Decided: "the three operations the single manager goroutine applies to the key -> session map, each as one sequential step over a ghost model of the reply channel (values sent, last value, closed): " +
			"join answers exactly once; for a key that is present it answers an error wrapping the key-exists sentinel and leaves that key's session untouched, otherwise it answers nil and records a fresh session with the caller's channel and header; " +
			"leave removes the given key and closes its reply channel; write hands the command to the channel of the session that owns the key (with that session's header and the reply channel attached) or answers a message whose error wraps ErrNotExistKey; " +
			"in all three every other key keeps its presence and its session (quantified over all strings). A map is a function, so 'at most one session per key' is the map invariant these steps preserve",
		Undecided: []string{
			"everything about schedules: that operations are applied one at a time (sessionManager.run's receive loop), blocking sends, the interleavings of connection goroutines and callers, join/leave callbacks being announced once (connection.reader/stop)",
			"the closures' callers (join/leave/write create the channels and wait on them) - the preconditions 'reply channel open' and 'sessions in the map are non-nil with open channels' are assumptions about them",
			"keyFunc (user supplied)",
		},
	})
}

func init() {
	var roots []string
	for _, t := range []string{"P0x8001", "P0x8801", "P0x9102", "P0x9105", "P0x9207", "T0x0001", "T0x0800", "T0x1003", "T0x1206"} {
		roots = append(roots, "model.rt"+t, "model.tr"+t)
	}
	roots = append(roots, "model.rtP0x8100", "model.rtT0x1211", "model.rtP0x8800", "model.trP0x8800", "model.rtT0x0805", "model.trT0x0805", "model.(*T0x0805).Parse", "model.(*T0x0805).Encode", "model.(*P0x8800).Parse", "model.(*P0x8800).Encode", "model.trT0x0102",
		"model.(*P0x8003).Encode", "model.(*P0x9212).Encode", "model.(*P0x9212).Parse", "model.(*P0x8100).Encode",
		"utils.BCD2Time", "utils.Time2BCD", "utils.Bcd2Dec", "utils.bcdConvert", "utils.String2FillingBytes")
	registerProp(&PropDef{
		ID:    "C07",
		Title: "Message body round trip for every message type",
		Roots: roots,
		Decided: "for 0x8001, 0x8801, 0x9102, 0x9105, 0x9207, 0x0001, 0x0800, 0x1003, 0x1206: Parse(Encode(x)) succeeds and yields x field by field for every value x, and Encode(Parse(b)) == b for every body b that Parse accepts " +
			"(harness functions that call the real Encode and Parse; both are inlined, nothing is modelled); for 0x8100 and 0x1211 the first direction (name length consistent with the name), for 0x0102 the second; " +
			"byte layouts of the 0x8003 and 0x9212 bodies and the 0x9212 parser reading the same positions; BCD time digits, BCD phone rendering and fixed-width padding helpers as far as their contracts state them",
		Undecided: []string{
			"the remaining two-way types: with length-prefixed or GBK text, lists and reflection (0x8103, 0x0104 terminal parameters, 0x0200/0x0704 with additional information, 0x9208, 0x1210, 0x9101, 0x9201, 0x9205, 0x9206, 0x1005, 0x1205, 0x0801, 0x0805, 0x8800, 0x0100) - their round-trip queries need string/byte copies through several heap versions and did not discharge within the quick budget, or hit arrays too large for the flattening encoding",
			"GBK/UTF-8 conversion (uninterpreted in the model)",
		},
	})
}

func init() {
	registerProp(&PropDef{
		ID:    "C04",
		Title: "Stream framing is independent of TCP segmentation",
		Roots: []string{"service.(*packageParse).unpack"},
		Decided: "nothing is dropped when a call delivers no message (every byte still pending) or exactly one (pending bytes plus its raw frame account for every byte); per call of unpack, for every pending buffer and every read: (1) each returned message carries exactly one frame (its raw bytes start and end with 0x7e and contain no other 0x7e), owns those bytes (C09) and is the decoding of exactly those bytes (Decode's contract, C02); " +
			"(2) conservation, stated inductively: the pending bytes are at every point a suffix of (old pending bytes ++ read); every message is built from the bytes at the head of the pending buffer, which then advances by exactly their number; on the fast path the single message is built from the whole read and nothing was pending; " +
			"(3) only single-frame-shaped byte strings are handed to Decode, so an error is the error of one frame and never of two frames merged; (4) when unpack returns without error no complete frame is left at the head of the pending bytes: a frame is delivered by the call in which its closing delimiter arrives. " +
			"Together: what a call returns and leaves pending is determined by the concatenation of the old pending bytes and the read alone",
		Undecided: []string{
			"the last step from (1)-(4) to 'the message sequence is the same for every partition into reads' is an induction over the reads (pen and paper; each call's effect depends only on the concatenation)",
			"bytes before the first delimiter (never sent by a conforming terminal) are treated differently by the two paths: the fast path fails the connection, the buffered path waits",
			"connection.reader's 1023-byte read loop (goroutine, socket)",
		},
	})
}

func init() {
	registerProp(&PropDef{
		ID:    "C20",
		Title: "The terminal simulator and the codec agree (kernel: CreateCommandData frames)",
		Roots: []string{"terminal.rtCommand"},
		Decided: "harness rtCommand = Decode(t.CreateCommandData(cmd, body)) on the real functions (CreateCommandData inlined, Header.Encode and JTMessage.Decode by contract, " +
			"the end-to-end argument of C01 repeated over the simulator's header): for every command ID, every custom body of at most 1023 bytes and every simulator header in the " +
			"domain (as Header.decode leaves it, protocol version 2011/2013 with a 6-byte phone or 2019 with the version flag and a 10-byte phone) the generated frame is accepted by the " +
			"frame decoder with that command ID, the simulator's phone bytes, the header layout of its version, a serial number one greater than the previous frame's (wrapping at 65535) " +
			"and a byte-identical body; the simulator's own serial advances by one per frame",
		Undecided: []string{
			"WithHeader builds the header by string templating (fmt.Sprintf %012s, strings.Replace, hex.DecodeString - library functions without models): that its result lies in the domain is an assumption (precondition C20.dom)",
			"CreateDefaultCommandData and ExpectedReply take bodies and reply bodies from a table of Handler interface values (dynamic dispatch over ~30 types): not reached; the bodies' own parse/re-encode agreement is C07's subject for the types covered there",
			"equality of the predicted reply with what a live service.GoJT808 sends (goroutines, sockets)",
			"the decimal phone string (Bcd2Dec of the proved-identical phone bytes)",
		},
	})
}
