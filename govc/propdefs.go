package main

func init() {
	for _, id := range []string{"C01", "C02", "C03", "C04", "C05", "C06", "C07", "C08", "C09", "C10", "C11", "C14", "C15", "C16", "C19", "C20"} {
		notApplicable[id] = "not yet claimed: contracts for this property are still being written (see DESIGN.md); no check is registered"
	}
	notApplicable["C12"] = "command/response matching lives in goroutine, channel and timer interplay (onActiveEvent/onActiveRespondEvent/write); no sequential function contract within the verifier's subset carries the claim"
	notApplicable["C13"] = "a statement about channel closure and blocked callers under all schedules; contracts over sequential semantics cannot state it"
	notApplicable["C18"] = "data-race freedom is a property of schedules; the deductive verifier models one goroutine's sequential semantics only"

	registerProp(&PropDef{
		ID:    "C17",
		Title: "JT1078 RTP packets are decoded as the standard prescribes",
		Roots: []string{"jt1078.(*Packet).Decode", "jt1078.(*Packet).decodeHead"},
		Decided: "full functional contract of Packet.Decode/decodeHead (error classification, every header field by offset and bit, " +
			"payload and remainder slices) plus absence of panics and over-reads, for all inputs and any prior receiver state",
		Undecided: []string{"the concatenation claim follows from the remainder clause by induction on the number of packets (pen-and-paper step)"},
	})
}
