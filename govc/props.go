package main

import (
	"regexp"
	"sort"
	"strings"
)

// PropDef says which verification units decide a property and which of their obligations count.
type PropDef struct {
	ID        string
	Title     string
	Roots     []string // function keys or regular expressions (prefixed with "re:")
	Exclude   []string // regular expressions of function keys to leave out
	Thorough  []string // additional roots in the thorough tier
	Level     string
	Decided   string // what is decided
	Undecided []string
	Assume    []string
}

var labelProp = regexp.MustCompile(`^(C[0-9]{2,3})\.`)

// ownsObligation: obligation o of a unit listed under property p counts for p unless its label names another property.
func (p *PropDef) ownsObligation(o *Obligation) bool {
	// Only postconditions can be left to the property they are labelled for: they are the last obligations of a
	// unit. Everything else (preconditions at call sites, call-site assertions, invariants) is assumed by the
	// obligations that follow it, so the property whose unit this is must discharge it itself.
	if o.Kind != "ensures" {
		return true
	}
	lab := o.Label
	// find any "Cxx." token inside the label
	idx := regexp.MustCompile(`C[0-9]{2,3}\.`).FindAllString(lab, -1)
	if len(idx) == 0 {
		return true
	}
	for _, m := range idx {
		if strings.TrimSuffix(m, ".") == p.ID {
			return true
		}
	}
	return false
}

func (p *PropDef) resolveRoots(prog *Program, tier string) []string {
	set := map[string]bool{}
	pats := append([]string(nil), p.Roots...)
	if tier == "thorough" {
		pats = append(pats, p.Thorough...)
	}
	var excl []*regexp.Regexp
	for _, e := range p.Exclude {
		excl = append(excl, regexp.MustCompile(e))
	}
	add := func(k string) {
		for _, e := range excl {
			if e.MatchString(k) {
				return
			}
		}
		set[k] = true
	}
	for _, r := range pats {
		if strings.HasPrefix(r, "re:") {
			re := regexp.MustCompile(strings.TrimPrefix(r, "re:"))
			for k, fn := range prog.funcs {
				if fn.Synthetic != "" || len(fn.Blocks) == 0 {
					continue
				}
				if re.MatchString(k) {
					add(k)
				}
			}
		} else {
			add(r)
		}
	}
	var out []string
	for k := range set {
		out = append(out, k)
	}
	sort.Strings(out)
	return out
}

var propDefs = map[string]*PropDef{}

func registerProp(p *PropDef) { propDefs[p.ID] = p }
