package main

import (
	"regexp"
	"flag"
	"fmt"
	"os"
	"path/filepath"
	"strings"
	"time"
)

func cmdVerify(args []string) {
	fs := flag.NewFlagSet("verify", flag.ExitOnError)
	timeout := fs.Duration("timeout", 20*time.Second, "per-query timeout")
	verbose := fs.Bool("v", false, "verbose")
	dump := fs.String("dump", "", "directory to dump queries of failed obligations")
	kinds := fs.String("kinds", "", "comma-separated obligation kinds to check (default all)")
	only := fs.String("only", "", "regexp on obligation names")
	fs.Parse(args)
	p, err := loadProgram()
	if err != nil {
		fmt.Fprintln(os.Stderr, err)
		os.Exit(2)
	}
	defer p.cleanup()
	defer cleanupQueries()
	defer saveStrategy()
	db := loadContracts(p)
	for _, e := range db.Errors {
		fmt.Println("CONTRACT ERROR:", e)
	}
	kindSet := map[string]bool{}
	for _, k := range strings.Split(*kinds, ",") {
		if k != "" {
			kindSet[k] = true
		}
	}
	for _, key := range fs.Args() {
		var res *UnitResult
		if strings.HasPrefix(key, "framelemma:") {
			res = encodeFrameLemma(p, db, strings.TrimPrefix(key, "framelemma:"))
		} else if strings.HasPrefix(key, "lemma:") {
			res = encodeLemma(p, db, strings.TrimPrefix(key, "lemma:"))
		} else {
			fn := p.Func(strings.TrimSuffix(key, "!safety"))
			if fn == nil {
				fmt.Println("no such function", key)
				continue
			}
			res = encodeUnitMode(p, db, fn, strings.HasSuffix(key, "!safety"))
		}
		if res.Rejected != "" {
			fmt.Printf("%s: REJECTED: %s\n", key, res.Rejected)
			continue
		}
		opt := Options{Timeout: *timeout, NeedAgree: 1, Workers: 12}
		if len(kindSet) > 0 || *only != "" {
			re := regexp.MustCompile(*only)
			opt.Only = func(o *Obligation) bool { return (len(kindSet) == 0 || kindSet[o.Kind]) && re.MatchString(o.Name) }
		}
		solveUnit(res, opt)
		counts := map[string]int{}
		for _, o := range res.Obls {
			counts[o.Res.Verdict]++
			if o.Res.Verdict != "unsat" || *verbose {
				fmt.Printf("  %-7s %-60s %s %.2fs %s\n", o.Res.Verdict, o.Name, o.Pos, o.Res.Seconds, o.Res.Solver)
				if o.Res.Verdict == "sat" && *verbose {
					for _, in := range res.unit.inputs {
						fmt.Printf("      %s = %s\n", in.Name, o.Res.Model[in.Sym])
					}
				}
				if *dump != "" && (o.Res.Verdict != "unsat" || os.Getenv("GOVC_DUMPALL") != "") && o.Res.Verdict != "skipped" {
					os.MkdirAll(*dump, 0o755)
					name := strings.NewReplacer("/", "_", " ", "_", "*", "", "(", "", ")", "").Replace(o.Name)
					os.WriteFile(filepath.Join(*dump, name+".smt2"), []byte("(set-logic ALL)\n"+res.unit.script(o)+"(check-sat)\n"), 0o644)
					os.WriteFile(filepath.Join(*dump, name+".sliced.smt2"), []byte("(set-logic ALL)\n"+res.unit.scriptSliced(o)+"(check-sat)\n"), 0o644)
					if gs := ginstScript(res.unit.script(o), false); gs != "" {
						os.WriteFile(filepath.Join(*dump, name+".ginst.smt2"), []byte("(set-logic ALL)\n"+gs+"(check-sat)\n"), 0o644)
					}
					if gs := ginstScript(res.unit.script(o), true); gs != "" {
						os.WriteFile(filepath.Join(*dump, name+".ground.smt2"), []byte("(set-logic ALL)\n"+gs+"(check-sat)\n"), 0o644)
					}
					if gs := ginstScriptLevel(res.unit.script(o), true, true, 0); gs != "" {
						os.WriteFile(filepath.Join(*dump, name+".ufl.smt2"), []byte("(set-logic ALL)\n"+gs+"(check-sat)\n"), 0o644)
					}
					if gs := ginstScriptOpt(res.unit.script(o), true, true); gs != "" {
						os.WriteFile(filepath.Join(*dump, name+".uf.smt2"), []byte("(set-logic ALL)\n"+gs+"(check-sat)\n"), 0o644)
					}
					if fs := res.unit.scriptFocused(o); fs != "" {
						os.WriteFile(filepath.Join(*dump, name+".focused.smt2"), []byte("(set-logic ALL)\n"+fs+"(check-sat)\n"), 0o644)
						if gs := ginstScript(fs, true); gs != "" {
							os.WriteFile(filepath.Join(*dump, name+".fground.smt2"), []byte("(set-logic ALL)\n"+gs+"(check-sat)\n"), 0o644)
						}
						if gs := ginstScriptLevel(fs, true, true, 0); gs != "" {
							os.WriteFile(filepath.Join(*dump, name+".fufl.smt2"), []byte("(set-logic ALL)\n"+gs+"(check-sat)\n"), 0o644)
						}
						if gs := ginstScriptOpt(fs, true, true); gs != "" {
							os.WriteFile(filepath.Join(*dump, name+".fuf.smt2"), []byte("(set-logic ALL)\n"+gs+"(check-sat)\n"), 0o644)
						}
					}
				}
			}
		}
		for _, e := range res.SpecErrors {
			fmt.Println("  SPEC ERROR:", e)
		}
		for _, n := range res.Notes {
			fmt.Println("  note:", n)
		}
		fmt.Printf("%s: %d obligations %v encode %.2fs solve %.2fs trusted=%v\n", key, len(res.Obls), counts, res.EncodeSec, res.SolveSec, res.Trusted)
	}
}
