package main

import (
	"fmt"
	"os"
	"sort"
	"strings"
)

func main() {
	if len(os.Args) < 2 {
		fmt.Fprintln(os.Stderr, "usage: govc <dump|check|selftest|list> ...")
		os.Exit(2)
	}
	switch os.Args[1] {
	case "dump":
		p, err := loadProgram()
		if err != nil {
			fmt.Fprintln(os.Stderr, err)
			os.Exit(2)
		}
		defer p.cleanup()
		if len(os.Args) == 2 {
			var keys []string
			for k := range p.funcs {
				if strings.HasPrefix(k, "model.") || strings.HasPrefix(k, "jt808.") || strings.HasPrefix(k, "jt1078.") || strings.HasPrefix(k, "utils.") || strings.HasPrefix(k, "service.") || strings.HasPrefix(k, "attachment.") || strings.HasPrefix(k, "terminal.") {
					keys = append(keys, k)
				}
			}
			sort.Strings(keys)
			for _, k := range keys {
				fmt.Println(k)
			}
			return
		}
		for _, k := range os.Args[2:] {
			fn := p.Func(k)
			if fn == nil {
				fmt.Println("no such function", k)
				continue
			}
			fn.WriteTo(os.Stdout)
		}
	case "verify":
		cmdVerify(os.Args[2:])
	case "manifest":
		os.Exit(cmdManifest())
	case "check":
		os.Exit(cmdCheck(os.Args[2:]))
	default:
		fmt.Fprintln(os.Stderr, "unknown command")
		os.Exit(2)
	}
}
