package main

import (
	"fmt"
	"os"
	"sort"
	"strings"
)

func main() {
	if len(os.Args) < 2 {
		fmt.Fprintln(os.Stderr, "usage: govc <dump|check|selftest|list> ...")
		os.Exit(2)
	}
	switch os.Args[1] {
	case "dump":
		p, err := loadProgram()
		if err != nil {
			fmt.Fprintln(os.Stderr, err)
			os.Exit(2)
		}
		defer p.cleanup()
		if len(os.Args) == 2 {
			var keys []string
			for k := range p.funcs {
				if strings.HasPrefix(k, "model.") || strings.HasPrefix(k, "jt808.") || strings.HasPrefix(k, "jt1078.") || strings.HasPrefix(k, "utils.") || strings.HasPrefix(k, "service.") || strings.HasPrefix(k, "attachment.") || strings.HasPrefix(k, "terminal.") {
					keys = append(keys, k)
				}
			}
			sort.Strings(keys)
			for _, k := range keys {
				fmt.Println(k)
			}
			return
		}
		for _, k := range os.Args[2:] {
			fn := p.Func(k)
			if fn == nil {
				fmt.Println("no such function", k)
				continue
			}
			fn.WriteTo(os.Stdout)
		}
	case "ginst":
		// debugging aid: govc ginst <file.smt2> <ground:0|1> <uf:0|1> <level> - print the instantiated script
		b, _ := os.ReadFile(os.Args[2])
		src := strings.TrimSuffix(strings.TrimPrefix(string(b), "(set-logic ALL)\n"), "(check-sat)\n")
		lvl := 1
		if len(os.Args) > 5 && os.Args[5] == "0" {
			lvl = 0
		}
		fmt.Print("(set-logic ALL)\n" + ginstScriptLevel(src, os.Args[3] == "1", os.Args[4] == "1", lvl) + "(check-sat)\n")
	case "verify":
		cmdVerify(os.Args[2:])
	case "manifest":
		os.Exit(cmdManifest())
	case "check":
		os.Exit(cmdCheck(os.Args[2:]))
	default:
		fmt.Fprintln(os.Stderr, "unknown command")
		os.Exit(2)
	}
}
