package main

import (
	"fmt"
	"go/types"
	"hash/fnv"
	"strings"
)

// A Leaf is one primitive slot of a flattened Go value.
type Leaf struct {
	Off  int    // offset in address units from the start of the value
	Sort string // SMT sort of the slot
	Site string // memory array the slot lives in when the value is in memory
	Kind string // "int","bv","bool","ptr","slice.ptr","slice.len","slice.cap","str.ptr","str.len","iface.type","iface.data","map","func","chan"
	T    types.Type // the Go type of the enclosing leaf value (e.g. the slice type for slice.*)
}

type unsupported struct{ msg string }

func (u unsupported) Error() string { return u.msg }

func unsupportedf(format string, args ...any) {
	panic(unsupported{fmt.Sprintf(format, args...)})
}

func basicName(b *types.Basic) string {
	switch b.Kind() {
	case types.Uint8:
		return "uint8"
	case types.Int32:
		return "int32"
	case types.UntypedInt:
		return "int"
	case types.UntypedBool:
		return "bool"
	case types.UntypedString:
		return "string"
	case types.UntypedRune:
		return "int32"
	case types.UntypedNil:
		return "nil"
	}
	return b.Name()
}

func shortQual(p *types.Package) string { return shortPkg(p.Path()) }

func typeKey(t types.Type) string {
	u := t.Underlying()
	if b, ok := u.(*types.Basic); ok {
		return basicName(b)
	}
	switch x := u.(type) {
	case *types.Slice:
		return "[]" + typeKey(x.Elem())
	case *types.Pointer:
		return "*" + namedKey(x.Elem())
	case *types.Map:
		return "map[" + typeKey(x.Key()) + "]" + namedKey(x.Elem())
	case *types.Interface:
		return "iface"
	case *types.Signature:
		return "func"
	case *types.Chan:
		return "chan"
	}
	return types.TypeString(u, shortQual)
}

// namedKey names struct types by their declared name.
func namedKey(t types.Type) string {
	t = types.Unalias(t)
	if n, ok := t.(*types.Named); ok {
		if _, isStruct := n.Underlying().(*types.Struct); isStruct {
			targs := ""
			if ta := n.TypeArgs(); ta != nil && ta.Len() > 0 {
				targs = "["
				for i := 0; i < ta.Len(); i++ {
					if i > 0 {
						targs += ","
					}
					targs += namedKey(ta.At(i))
				}
				targs += "]"
			}
			if n.Obj().Pkg() != nil {
				return shortPkg(n.Obj().Pkg().Path()) + "." + n.Obj().Name() + targs
			}
			return n.Obj().Name() + targs
		}
	}
	if s, ok := t.Underlying().(*types.Struct); ok {
		h := fnv.New32a()
		h.Write([]byte(types.TypeString(s, shortQual)))
		return fmt.Sprintf("anon%08x", h.Sum32())
	}
	return typeKey(t)
}

func intSort(b *types.Basic) (sort string, kind string) {
	switch b.Kind() {
	case types.Bool, types.UntypedBool:
		return SBool, "bool"
	case types.Int, types.UntypedInt:
		return SInt, "int"
	case types.Int8, types.Uint8:
		return SBV(8), "bv"
	case types.Int16, types.Uint16:
		return SBV(16), "bv"
	case types.Int32, types.Uint32, types.UntypedRune:
		return SBV(32), "bv"
	case types.Int64, types.Uint64, types.Uint, types.Uintptr:
		return SBV(64), "bv"
	case types.Float32:
		return SBV(32), "bv"
	case types.Float64, types.UntypedFloat:
		return SBV(64), "bv"
	case types.UnsafePointer:
		return SInt, "ptr"
	}
	return "", ""
}

func isSigned(t types.Type) bool {
	if b, ok := t.Underlying().(*types.Basic); ok {
		return b.Info()&types.IsInteger != 0 && b.Info()&types.IsUnsigned == 0
	}
	return false
}

func isIntSort(t types.Type) bool { // Go int (mathematical)
	if b, ok := t.Underlying().(*types.Basic); ok {
		return b.Kind() == types.Int || b.Kind() == types.UntypedInt
	}
	return false
}

const maxArrayFlatten = 64

var leafCache = map[string][]Leaf{}

// siteKind remembers, for every heap site, the kind and Go type of the leaf stored there (for typing axioms).
var siteKind = map[string]Leaf{}

// leavesOf flattens type t located in memory under the given site hint.
// hint is "elem" or "field:<Struct>.<idx>:<name>".
func leavesOf(t types.Type, hint string) []Leaf {
	key := hint + "|" + types.TypeString(t, nil)
	if l, ok := leafCache[key]; ok {
		return l
	}
	var out []Leaf
	flatten(t, 0, hint, &out)
	leafCache[key] = out
	for _, l := range out {
		if _, ok := siteKind[l.Site]; !ok {
			siteKind[l.Site] = l
		}
	}
	return out
}

func sizeOf(t types.Type) int {
	ls := leavesOf(t, "elem")
	if len(ls) == 0 {
		return 1
	}
	last := ls[len(ls)-1]
	return last.Off + 1
}

func flatten(t types.Type, off int, hint string, out *[]Leaf) {
	t = types.Unalias(t)
	siteOf := func(k int) string {
		if strings.HasPrefix(hint, "field:") {
			return fmt.Sprintf("%s#%d", strings.TrimPrefix(hint, "field:"), k)
		}
		return fmt.Sprintf("elem.%s#%d", typeKey(t), k)
	}
	switch u := t.Underlying().(type) {
	case *types.Basic:
		if u.Kind() == types.String || u.Kind() == types.UntypedString {
			*out = append(*out, Leaf{off, SInt, siteOf(0), "str.ptr", t}, Leaf{off + 1, SInt, siteOf(1), "str.len", t})
			return
		}
		if u.Kind() == types.Invalid {
			return
		}
		s, k := intSort(u)
		if s == "" {
			unsupportedf("type %s", t)
		}
		*out = append(*out, Leaf{off, s, siteOf(0), k, t})
	case *types.Pointer:
		*out = append(*out, Leaf{off, SInt, siteOf(0), "ptr", t})
	case *types.Map:
		*out = append(*out, Leaf{off, SInt, siteOf(0), "map", t})
	case *types.Chan:
		*out = append(*out, Leaf{off, SInt, siteOf(0), "chan", t})
	case *types.Signature:
		*out = append(*out, Leaf{off, SInt, siteOf(0), "func", t})
	case *types.Slice:
		*out = append(*out, Leaf{off, SInt, siteOf(0), "slice.ptr", t}, Leaf{off + 1, SInt, siteOf(1), "slice.len", t}, Leaf{off + 2, SInt, siteOf(2), "slice.cap", t})
	case *types.Interface:
		*out = append(*out, Leaf{off, SInt, siteOf(0), "iface.type", t}, Leaf{off + 1, SInt, siteOf(1), "iface.data", t})
	case *types.Struct:
		name := namedKey(t)
		o := off
		for i := 0; i < u.NumFields(); i++ {
			f := u.Field(i)
			n0 := len(*out)
			flatten(f.Type(), o, fmt.Sprintf("field:%s.%s", name, f.Name()), out)
			if len(*out) > n0 {
				o = (*out)[len(*out)-1].Off + 1
			}
		}
	case *types.Array:
		if u.Len() > maxArrayFlatten {
			unsupportedf("array too large to flatten: %s", t)
		}
		o := off
		for i := int64(0); i < u.Len(); i++ {
			n0 := len(*out)
			flatten(u.Elem(), o, "elem", out)
			if len(*out) > n0 {
				o = (*out)[len(*out)-1].Off + 1
			} else {
				o++
			}
		}
	case *types.Tuple:
		o := off
		for i := 0; i < u.Len(); i++ {
			n0 := len(*out)
			flatten(u.At(i).Type(), o, "elem", out)
			if len(*out) > n0 {
				o = (*out)[len(*out)-1].Off + 1
			}
		}
	default:
		unsupportedf("type %s (%T)", t, u)
	}
}

// fieldOffset returns the address offset and leaf-index range of field i in struct type st.
func fieldOffset(st types.Type, idx int) (off int, leafStart int, leafEnd int) {
	u := st.Underlying().(*types.Struct)
	name := namedKey(st)
	o := 0
	li := 0
	for i := 0; i < u.NumFields(); i++ {
		f := u.Field(i)
		ls := leavesOf(f.Type(), fmt.Sprintf("field:%s.%s", name, f.Name()))
		sz := 0
		if len(ls) > 0 {
			sz = ls[len(ls)-1].Off + 1
		}
		if i == idx {
			return o, li, li + len(ls)
		}
		o += sz
		li += len(ls)
	}
	panic("fieldOffset")
}

func fieldHint(st types.Type, idx int) string {
	u := st.Underlying().(*types.Struct)
	return fmt.Sprintf("field:%s.%s", namedKey(st), u.Field(idx).Name())
}

// elemStride is the address distance between consecutive elements of type t.
func elemStride(t types.Type) int {
	ls := leavesOf(t, "elem")
	if len(ls) == 0 {
		return 1
	}
	return ls[len(ls)-1].Off + 1
}

// tupleLeafRange returns the leaf index range of component i in tuple t.
func tupleLeafRange(t *types.Tuple, idx int) (int, int) {
	li := 0
	for i := 0; i < t.Len(); i++ {
		n := len(leavesOf(t.At(i).Type(), "elem"))
		if i == idx {
			return li, li + n
		}
		li += n
	}
	panic("tupleLeafRange")
}
