package main

import (
	"fmt"
	"math/big"
	"strings"
)

// Sorts are plain SMT-LIB strings.
const (
	SInt  = "Int"
	SBool = "Bool"
)

func SBV(w int) string { return fmt.Sprintf("(_ BitVec %d)", w) }
func SArr(idx, el string) string {
	return fmt.Sprintf("(Array %s %s)", idx, el)
}

func bvWidth(sort string) int {
	var w int
	if _, err := fmt.Sscanf(sort, "(_ BitVec %d)", &w); err == nil {
		return w
	}
	return 0
}

// itemKind
const (
	itDecl   = iota // declare-fun
	itDefine        // define-fun
	itAssert        // assert
	itRaw           // raw command (define-fun-rec ...)
)

type item struct {
	kind int
	name string
	text string // full SMT command
	syms []string
	tag  string
	blk  int // index of the root function's block being encoded when the item was created (-1: none)
	qf   string // replacement text in the quantifier-free relaxation ("" = derive from text)
}

// Ctx accumulates the logical context of one verification unit in program order.
type Ctx struct {
	items  []item
	names  map[string]int // symbol -> item index defining it
	nextID int
	curBlk int
}

func newCtx() *Ctx { return &Ctx{names: map[string]int{}, curBlk: -1} }

func quoteSym(s string) string {
	simple := true
	for _, c := range s {
		if !(c >= 'a' && c <= 'z' || c >= 'A' && c <= 'Z' || c >= '0' && c <= '9' || c == '_' || c == '.' || c == '$' || c == '!' || c == '~') {
			simple = false
			break
		}
	}
	if simple && len(s) > 0 && !(s[0] >= '0' && s[0] <= '9') {
		return s
	}
	s = strings.ReplaceAll(s, "|", "!")
	s = strings.ReplaceAll(s, "\\", "!")
	return "|" + s + "|"
}

func (c *Ctx) fresh(prefix string) string {
	c.nextID++
	return quoteSym(fmt.Sprintf("%s!%d", prefix, c.nextID))
}

func (c *Ctx) declare(name, sort string) string {
	c.names[name] = len(c.items)
	c.items = append(c.items, item{kind: itDecl, name: name, text: fmt.Sprintf("(declare-fun %s () %s)", name, sort)})
	return name
}

func (c *Ctx) declareFun(name string, args []string, ret string) string {
	c.names[name] = len(c.items)
	c.items = append(c.items, item{kind: itDecl, name: name, text: fmt.Sprintf("(declare-fun %s (%s) %s)", name, strings.Join(args, " "), ret)})
	return name
}

func (c *Ctx) freshConst(prefix, sort string) string {
	return c.declare(c.fresh(prefix), sort)
}

func (c *Ctx) define(name, sort, body string) string {
	c.names[name] = len(c.items)
	c.items = append(c.items, item{kind: itDefine, name: name, text: fmt.Sprintf("(define-fun %s () %s %s)", name, sort, body), syms: symsOf(body)})
	return name
}

// def introduces a named abbreviation for a term unless it is already atomic.
func (c *Ctx) def(prefix, sort, body string) string {
	if isAtomic(body) {
		return body
	}
	return c.define(c.fresh(prefix), sort, body)
}

func (c *Ctx) assert(tag, body string) {
	if body == "true" {
		return
	}
	c.items = append(c.items, item{kind: itAssert, text: fmt.Sprintf("(assert %s)", body), syms: symsOf(body), tag: tag, blk: c.curBlk})
}

func (c *Ctx) raw(name, text string) {
	if name != "" {
		c.names[name] = len(c.items)
	}
	c.items = append(c.items, item{kind: itRaw, name: name, text: text, syms: symsOf(text)})
}

func (c *Ctx) rawQF(name, text, qf string) {
	c.raw(name, text)
	c.items[len(c.items)-1].qf = qf
}

func (c *Ctx) mark() int { return len(c.items) }

func isAtomic(t string) bool {
	if t == "" {
		return true
	}
	if t[0] == '(' {
		return strings.HasPrefix(t, "(_ bv") && !strings.Contains(t[1:], "(")
	}
	return true
}

// symsOf extracts candidate symbol tokens from an SMT term.
func symsOf(t string) []string {
	var out []string
	seen := map[string]bool{}
	i := 0
	for i < len(t) {
		ch := t[i]
		switch {
		case ch == '|':
			j := strings.IndexByte(t[i+1:], '|')
			if j < 0 {
				return out
			}
			s := t[i : i+j+2]
			if !seen[s] {
				seen[s] = true
				out = append(out, s)
			}
			i += j + 2
		case ch == '(' || ch == ')' || ch == ' ' || ch == '\n' || ch == '\t':
			i++
		default:
			j := i
			for j < len(t) && t[j] != '(' && t[j] != ')' && t[j] != ' ' && t[j] != '\n' && t[j] != '\t' {
				j++
			}
			s := t[i:j]
			if !seen[s] {
				seen[s] = true
				out = append(out, s)
			}
			i = j
		}
	}
	return out
}

// ---- term constructors ----

func app(op string, args ...string) string {
	return "(" + op + " " + strings.Join(args, " ") + ")"
}

func and(args ...string) string {
	var xs []string
	for _, a := range args {
		if a == "true" || a == "" {
			continue
		}
		if a == "false" {
			return "false"
		}
		xs = append(xs, a)
	}
	switch len(xs) {
	case 0:
		return "true"
	case 1:
		return xs[0]
	}
	return app("and", xs...)
}

func or(args ...string) string {
	var xs []string
	for _, a := range args {
		if a == "false" || a == "" {
			continue
		}
		if a == "true" {
			return "true"
		}
		xs = append(xs, a)
	}
	switch len(xs) {
	case 0:
		return "false"
	case 1:
		return xs[0]
	}
	return app("or", xs...)
}

func not(a string) string {
	switch a {
	case "true":
		return "false"
	case "false":
		return "true"
	}
	if strings.HasPrefix(a, "(not ") && balancedTail(a) {
		return a[5 : len(a)-1]
	}
	return app("not", a)
}

func balancedTail(a string) bool {
	// a = "(not X)" where X is one term
	inner := a[5 : len(a)-1]
	depth := 0
	inq := false
	for i := 0; i < len(inner); i++ {
		switch inner[i] {
		case '|':
			inq = !inq
		case '(':
			if !inq {
				depth++
			}
		case ')':
			if !inq {
				depth--
				if depth < 0 {
					return false
				}
			}
		case ' ':
			if !inq && depth == 0 {
				return false
			}
		}
	}
	return depth == 0
}

func implies(a, b string) string {
	if a == "true" {
		return b
	}
	if a == "false" || b == "true" {
		return "true"
	}
	return app("=>", a, b)
}

func ite(c, a, b string) string {
	if c == "true" {
		return a
	}
	if c == "false" {
		return b
	}
	if a == b {
		return a
	}
	return app("ite", c, a, b)
}

func eq(a, b string) string {
	if a == b {
		return "true"
	}
	return app("=", a, b)
}

func intLit(n int64) string {
	if n < 0 {
		return fmt.Sprintf("(- %d)", -n)
	}
	return fmt.Sprintf("%d", n)
}

func bigIntLit(n *big.Int) string {
	if n.Sign() < 0 {
		return "(- " + new(big.Int).Neg(n).String() + ")"
	}
	return n.String()
}

func bvLit(n *big.Int, w int) string {
	m := new(big.Int).Set(n)
	mod := new(big.Int).Lsh(big.NewInt(1), uint(w))
	m.Mod(m, mod)
	if m.Sign() < 0 {
		m.Add(m, mod)
	}
	return fmt.Sprintf("(_ bv%s %d)", m.String(), w)
}

func bvLitU(n uint64, w int) string { return bvLit(new(big.Int).SetUint64(n), w) }

func litInt(s string) (*big.Int, bool) {
	if s == "" {
		return nil, false
	}
	neg := false
	t := s
	if strings.HasPrefix(t, "(- ") && strings.HasSuffix(t, ")") {
		neg = true
		t = t[3 : len(t)-1]
	}
	for _, c := range t {
		if c < '0' || c > '9' {
			return nil, false
		}
	}
	n, ok := new(big.Int).SetString(t, 10)
	if !ok {
		return nil, false
	}
	if neg {
		n.Neg(n)
	}
	return n, true
}

func add(a, b string) string {
	if b == "0" {
		return a
	}
	if a == "0" {
		return b
	}
	x, ok1 := litInt(a)
	y, ok2 := litInt(b)
	if ok1 && ok2 {
		return bigIntLit(new(big.Int).Add(x, y))
	}
	// (+ (+ t c1) c2) -> (+ t c1+c2)
	if ok2 && strings.HasPrefix(a, "(+ ") {
		if i := strings.LastIndex(a, " "); i > 0 {
			if c1, ok := litInt(a[i+1 : len(a)-1]); ok && balancedInner(a[3:i]) {
				return add(a[3:i], bigIntLit(new(big.Int).Add(c1, y)))
			}
		}
	}
	return app("+", a, b)
}

func balancedInner(t string) bool {
	depth := 0
	inq := false
	for i := 0; i < len(t); i++ {
		switch t[i] {
		case '|':
			inq = !inq
		case '(':
			if !inq {
				depth++
			}
		case ')':
			if !inq {
				depth--
				if depth < 0 {
					return false
				}
			}
		case ' ':
			if !inq && depth == 0 {
				return false
			}
		}
	}
	return depth == 0 && !inq
}

func sub(a, b string) string {
	if b == "0" {
		return a
	}
	x, ok1 := litInt(a)
	y, ok2 := litInt(b)
	if ok1 && ok2 {
		return bigIntLit(new(big.Int).Sub(x, y))
	}
	if a == b {
		return "0"
	}
	if ok2 {
		return add(a, bigIntLit(new(big.Int).Neg(y)))
	}
	return app("-", a, b)
}
func mul(a, b string) string {
	if a == "1" {
		return b
	}
	if b == "1" {
		return a
	}
	x, ok1 := litInt(a)
	y, ok2 := litInt(b)
	if ok1 && ok2 {
		return bigIntLit(new(big.Int).Mul(x, y))
	}
	if (ok1 && x.Sign() == 0) || (ok2 && y.Sign() == 0) {
		return "0"
	}
	return app("*", a, b)
}
func le(a, b string) string { return app("<=", a, b) }
func lt(a, b string) string { return app("<", a, b) }
func sel(arr, idx string) string {
	return app("select", arr, idx)
}
func store(arr, idx, v string) string {
	return app("store", arr, idx, v)
}

func zeroOf(sort string) string {
	switch {
	case sort == SInt:
		return "0"
	case sort == SBool:
		return "false"
	case bvWidth(sort) > 0:
		return bvLitU(0, bvWidth(sort))
	}
	panic("zeroOf " + sort)
}

// bv2int (unsigned)
func bv2nat(t string) string {
	// constant folding for literals
	var n string
	var w int
	if _, err := fmt.Sscanf(t, "(_ bv%s %d)", &n, &w); err == nil && !strings.Contains(n, "(") {
		return n
	}
	return app("bv2nat", t)
}

func bv2intSigned(t string, w int) string {
	u := bv2nat(t)
	half := new(big.Int).Lsh(big.NewInt(1), uint(w-1))
	full := new(big.Int).Lsh(big.NewInt(1), uint(w))
	return ite(app("bvslt", t, bvLitU(0, w)), app("-", u, full.String()), u) + commentless(half)
}

func commentless(*big.Int) string { return "" }

func int2bv(t string, w int) string {
	// int2bv(bv2nat x) == x when widths agree is handled by callers that know the width
	return app(fmt.Sprintf("(_ int2bv %d)", w), t)
}
