package main

import (
	"fmt"
	"go/ast"
	"go/constant"
	"go/token"
	"go/types"
	"math/big"
	"strconv"
	"strings"

	"golang.org/x/tools/go/ssa"
)

// Env is the evaluation environment of a specification expression.
type Env struct {
	u     *Unit
	f     *Frame
	st    *state
	old   *state
	look  func(name string) (Val, bool)
	lookSt func(name string, st *state) (Val, bool) // names whose value depends on the state (captured variables)
	bound map[string]Val
	pkg   *types.Package
	quant bool // set when a quantifier or spec function was used
	// when defining a spec function body: memory formals
	specSites map[string]string
	specSelf  *SpecFunc
	selfRec   bool
	// quantifier scopes: well-typedness facts of the pointers/slice headers loaded from the heap inside the body;
	// they are assumed (heap typing) when the quantified formula is built
	qdepth  int
	qfacts  *[]string
	assume  bool // the clause is being evaluated to be assumed (not proved)
	li      *loopInfo // loop whose invariant is being evaluated (for visited())
}

type specError struct{ msg string }

func specErrf(format string, args ...any) { panic(specError{fmt.Sprintf(format, args...)}) }

var untypedInt = types.Typ[types.UntypedInt]

func constVal(n *big.Int) Val {
	return Val{T: untypedInt, S: []string{bigIntLit(n)}, IsConst: true, K: n}
}

func (e *Env) withBound(name string, v Val) *Env {
	ne := *e
	ne.bound = map[string]Val{}
	for k, x := range e.bound {
		ne.bound[k] = x
	}
	ne.bound[name] = v
	return &ne
}

func (e *Env) mem() *Mem { return e.st.mem }

func (e *Env) arr(site, sort string) string {
	if e.specSites != nil {
		if a, ok := e.specSites[site]; ok {
			return a
		}
		e.u.sortOfSite(site, sort)
		a := quoteSym("H:" + site)
		e.specSites[site] = a
		return a
	}
	return e.u.arr(e.st.mem, site, sort)
}

// loadAt reads a value of type t from memory without typing assumptions.
func (e *Env) loadAt(addr string, t types.Type, hint string) Val {
	if hint == "" {
		hint = "elem"
	}
	ls := leavesOf(t, hint)
	v := Val{T: t, S: make([]string, len(ls))}
	for i, l := range ls {
		v.S[i] = sel(e.arr(l.Site, l.Sort), add(addr, intLit(int64(l.Off))))
	}
	if e.qdepth > 0 && e.qfacts != nil && e.specSites == nil && e.st != nil && e.st.mem != nil {
		lim := func(i int) string { return e.u.limitOf(e.st.mem, ls[i].Site) }
		if f := e.u.typingFactLim(v, lim); f != "true" {
			*e.qfacts = append(*e.qfacts, f)
		}
	} else if e.qdepth == 0 && e.specSites == nil && e.st != nil && e.st.mem != nil && len(ls) > 0 && e.u != nil && e.u.ctx != nil {
		// outside quantifiers: the instance of the heap typing axiom for this cell (allocated cells hold well-typed
		// values), asserted as a fact. The solvers find such instances by e-matching only if the site's axiom has been
		// emitted before; a site first mentioned by a specification (len(t.list) in an invariant checked before any
		// instruction loaded it) has none.
		lim := func(i int) string { return e.u.limitOf(e.st.mem, ls[i].Site) }
		if f := e.u.typingFactLim(v, lim); f != "true" {
			inst := implies(lt(add(addr, intLit(int64(ls[0].Off))), lim(0)), f)
			if e.u.typingInst == nil {
				e.u.typingInst = map[string]bool{}
			}
			if !e.u.typingInst[inst] && !strings.Contains(inst, "q!") {
				e.u.typingInst[inst] = true
				e.u.ctx.assert("typing-inst", inst)
			}
		}
	}
	return v
}

// coerce adapts an untyped constant to type t.
func coerce(v Val, t types.Type) Val {
	if v.K == nil {
		return v
	}
	if isIntSort(t) {
		return Val{T: t, S: []string{bigIntLit(v.K)}, IsConst: true, K: v.K}
	}
	if b, ok := t.Underlying().(*types.Basic); ok {
		if s, _ := intSort(b); bvWidth(s) > 0 {
			return Val{T: t, S: []string{bvLit(v.K, bvWidth(s))}, IsConst: true}
		}
	}
	return v
}

func isUntyped(v Val) bool { return v.K != nil }

func (e *Env) evalBool(x ast.Expr) string {
	v := e.eval(x)
	if len(v.S) != 1 {
		specErrf("expected bool expression")
	}
	return v.S[0]
}

func (e *Env) evalInt(x ast.Expr) string {
	v := e.eval(x)
	if isUntyped(v) || isIntSort(v.T) {
		return v.S[0]
	}
	return toInt(v.S[0], v.T)
}

func boolVal(s string) Val { return Val{T: types.Typ[types.Bool], S: []string{s}} }
func intVal(s string) Val  { return Val{T: types.Typ[types.Int], S: []string{s}} }

func (e *Env) eval(x ast.Expr) Val {
	switch n := x.(type) {
	case *ast.ParenExpr:
		return e.eval(n.X)
	case *ast.BasicLit:
		switch n.Kind {
		case token.INT:
			v, ok := new(big.Int).SetString(strings.ReplaceAll(n.Value, "_", ""), 0)
			if !ok {
				specErrf("bad int literal %s", n.Value)
			}
			return constVal(v)
		case token.CHAR:
			r, _, _, err := strconv.UnquoteChar(n.Value[1:len(n.Value)-1], '\'')
			if err != nil {
				specErrf("bad char literal %s", n.Value)
			}
			return constVal(big.NewInt(int64(r)))
		case token.STRING:
			s, err := strconv.Unquote(n.Value)
			if err != nil {
				specErrf("bad string literal")
			}
			return e.u.strConst(types.Typ[types.String], s)
		}
		specErrf("literal %s", n.Value)
	case *ast.Ident:
		return e.ident(n.Name)
	case *ast.UnaryExpr:
		v := e.eval(n.X)
		switch n.Op {
		case token.NOT:
			return boolVal(not(v.S[0]))
		case token.SUB:
			if isUntyped(v) {
				return constVal(new(big.Int).Neg(v.K))
			}
			if isIntSort(v.T) {
				return intVal(app("-", v.S[0]))
			}
			return Val{T: v.T, S: []string{app("bvneg", v.S[0])}}
		case token.XOR:
			if !isIntSort(v.T) && !isUntyped(v) {
				return Val{T: v.T, S: []string{app("bvnot", v.S[0])}}
			}
		case token.AND:
			// address-of: only &x.f forms via selector are meaningful; unsupported
		}
		specErrf("unary %s", n.Op)
	case *ast.StarExpr:
		v := e.eval(n.X)
		pt, ok := v.T.Underlying().(*types.Pointer)
		if !ok {
			specErrf("deref of non-pointer")
		}
		return e.loadAt(v.S[0], pt.Elem(), v.Hint)
	case *ast.BinaryExpr:
		return e.binary(n)
	case *ast.SelectorExpr:
		return e.selector(n)
	case *ast.IndexExpr:
		return e.indexExpr(n)
	case *ast.SliceExpr:
		return e.sliceExpr(n)
	case *ast.CallExpr:
		return e.callExpr(n)
	}
	specErrf("unsupported spec expression %T", x)
	return Val{}
}

func (e *Env) ident(name string) Val {
	if v, ok := e.bound[name]; ok {
		return v
	}
	switch name {
	case "true":
		return boolVal("true")
	case "false":
		return boolVal("false")
	case "nil":
		return Val{T: types.Typ[types.UntypedNil], S: []string{"0"}}
	}
	if e.look != nil {
		if e.lookSt != nil {
			if v, ok := e.lookSt(name, e.st); ok {
				return v
			}
		}
		if v, ok := e.look(name); ok {
			return v
		}
	}
	if e.pkg != nil {
		if obj := e.pkg.Scope().Lookup(name); obj != nil {
			return e.object(obj)
		}
	}
	specErrf("unknown identifier %q", name)
	return Val{}
}

func (e *Env) object(obj types.Object) Val {
	switch o := obj.(type) {
	case *types.Const:
		if o.Val().Kind() == constant.Int {
			n, _ := new(big.Int).SetString(o.Val().ExactString(), 10)
			v := constVal(n)
			if b, ok := o.Type().Underlying().(*types.Basic); ok && b.Info()&types.IsUntyped == 0 {
				return coerce(v, o.Type())
			}
			return v
		}
		if o.Val().Kind() == constant.String {
			return e.u.strConst(o.Type(), constant.StringVal(o.Val()))
		}
		if o.Val().Kind() == constant.Bool {
			if constant.BoolVal(o.Val()) {
				return boolVal("true")
			}
			return boolVal("false")
		}
	case *types.Var:
		// package-level variable: load through the global
		sp := e.u.prog.SSA.Package(o.Pkg())
		if sp != nil {
			if g, ok := sp.Members[o.Name()].(*ssa.Global); ok {
				if gv, ok := e.u.globalValue(g, e.st); ok {
					return gv
				}
				ga := e.u.globalAddr(g)
				return e.loadAt(ga.S[0], o.Type(), ga.Hint)
			}
		}
	}
	specErrf("unsupported object %s", obj)
	return Val{}
}

func (e *Env) selector(n *ast.SelectorExpr) Val {
	// package-qualified name?
	if id, ok := n.X.(*ast.Ident); ok {
		if _, isBound := e.bound[id.Name]; !isBound {
			known := false
			if e.look != nil {
				_, known = e.look(id.Name)
			}
			if !known && e.pkg != nil {
				for _, imp := range e.pkg.Imports() {
					if imp.Name() == id.Name {
						if obj := imp.Scope().Lookup(n.Sel.Name); obj != nil {
							return e.object(obj)
						}
					}
				}
				if obj := e.pkg.Scope().Lookup(id.Name); obj == nil {
					// maybe a package not directly imported: search loaded packages by name
					for _, sp := range e.u.prog.SSA.AllPackages() {
						if sp.Pkg.Name() == id.Name && strings.HasPrefix(sp.Pkg.Path(), modRoot) {
							if obj := sp.Pkg.Scope().Lookup(n.Sel.Name); obj != nil {
								return e.object(obj)
							}
						}
					}
				}
			}
		}
	}
	base := e.eval(n.X)
	return e.field(base, n.Sel.Name)
}

// field selects a (possibly promoted) field, dereferencing pointers automatically.
func (e *Env) field(base Val, name string) Val {
	t := base.T
	obj, path, _ := types.LookupFieldOrMethod(t, true, nil, name)
	if obj == nil {
		// unexported field: need the package
		if n := namedOf(t); n != nil && n.Obj().Pkg() != nil {
			obj, path, _ = types.LookupFieldOrMethod(t, true, n.Obj().Pkg(), name)
		}
	}
	if _, ok := obj.(*types.Var); !ok || obj == nil {
		specErrf("no field %s in %s", name, t)
	}
	cur := base
	for _, idx := range path {
		if pt, ok := cur.T.Underlying().(*types.Pointer); ok {
			st := pt.Elem()
			off, _, _ := fieldOffset(st, idx)
			ft := st.Underlying().(*types.Struct).Field(idx).Type()
			addr := add(cur.S[0], intLit(int64(off)))
			cur = e.loadAt(addr, ft, fieldHint(st, idx))
			cur.Addr = addr
			cur.AddrHint = fieldHint(st, idx)
		} else {
			_, ls, le := fieldOffset(cur.T, idx)
			ft := cur.T.Underlying().(*types.Struct).Field(idx).Type()
			nv := Val{T: ft, S: append([]string(nil), cur.S[ls:le]...)}
			if cur.Addr != "" {
				off, _, _ := fieldOffset(cur.T, idx)
				nv.Addr = add(cur.Addr, intLit(int64(off)))
				nv.AddrHint = fieldHint(cur.T, idx)
			}
			cur = nv
		}
	}
	return cur
}

func namedOf(t types.Type) *types.Named {
	t = types.Unalias(t)
	if p, ok := t.(*types.Pointer); ok {
		t = types.Unalias(p.Elem())
	}
	n, _ := t.(*types.Named)
	return n
}

func (e *Env) indexExpr(n *ast.IndexExpr) Val {
	base := e.eval(n.X)
	switch t := base.T.Underlying().(type) {
	case *types.Slice:
		idx := e.evalInt(n.Index)
		stride := elemStride(t.Elem())
		addr := add(base.S[0], mul(idx, intLit(int64(stride))))
		v := e.loadAt(addr, t.Elem(), "elem")
		v.Addr = addr
		v.AddrHint = "elem"
		return v
	case *types.Basic:
		if t.Info()&types.IsString != 0 {
			idx := e.evalInt(n.Index)
			return Val{T: types.Typ[types.Uint8], S: []string{sel(e.arr(strSite, SBV(8)), add(base.S[0], idx))}}
		}
	case *types.Map:
		k := coerce(e.eval(n.Index), t.Key())
		mi := e.u.mapInfo(base.T)
		k = e.keyOf(mi, k)
		dom := e.arr(mi.domSite, SArr(mi.kSort, SBool))
		present := and(not(eq(base.S[0], "0")), sel(sel(dom, base.S[0]), k.S[0]))
		v := Val{T: t.Elem()}
		for j, l := range mi.vLeaves {
			a := e.arr(mi.valSite[j], SArr(mi.kSort, l.Sort))
			v.S = append(v.S, ite(present, sel(sel(a, base.S[0]), k.S[0]), zeroOf(l.Sort)))
		}
		return v
	case *types.Array:
		idx := e.eval(n.Index)
		if idx.K == nil {
			specErrf("array value index must be constant")
		}
		k := int(idx.K.Int64())
		nl := len(leavesOf(t.Elem(), "elem"))
		return Val{T: t.Elem(), S: append([]string(nil), base.S[k*nl:(k+1)*nl]...)}
	case *types.Pointer:
		if arr, ok := t.Elem().Underlying().(*types.Array); ok {
			idx := e.evalInt(n.Index)
			addr := add(base.S[0], mul(idx, intLit(int64(elemStride(arr.Elem())))))
			return e.loadAt(addr, arr.Elem(), "elem")
		}
	}
	specErrf("index of %s", base.T)
	return Val{}
}

func (e *Env) sliceExpr(n *ast.SliceExpr) Val {
	base := e.eval(n.X)
	lo := "0"
	if n.Low != nil {
		lo = e.evalInt(n.Low)
	}
	switch t := base.T.Underlying().(type) {
	case *types.Slice:
		hi := base.S[1]
		if n.High != nil {
			hi = e.evalInt(n.High)
		}
		stride := elemStride(t.Elem())
		return Val{T: base.T, S: []string{add(base.S[0], mul(lo, intLit(int64(stride)))), sub(hi, lo), sub(base.S[2], lo)}}
	case *types.Basic:
		hi := base.S[1]
		if n.High != nil {
			hi = e.evalInt(n.High)
		}
		return Val{T: base.T, S: []string{add(base.S[0], lo), sub(hi, lo)}}
	}
	specErrf("slice of %s", base.T)
	return Val{}
}

func (e *Env) binary(n *ast.BinaryExpr) Val {
	switch n.Op {
	case token.LAND:
		return boolVal(and(e.evalBool(n.X), e.evalBool(n.Y)))
	case token.LOR:
		return boolVal(or(e.evalBool(n.X), e.evalBool(n.Y)))
	}
	a, b := e.eval(n.X), e.eval(n.Y)
	// shifts: count is independent
	if n.Op == token.SHL || n.Op == token.SHR {
		if isUntyped(a) && isUntyped(b) {
			if n.Op == token.SHL {
				return constVal(new(big.Int).Lsh(a.K, uint(b.K.Int64())))
			}
			return constVal(new(big.Int).Rsh(a.K, uint(b.K.Int64())))
		}
		if isUntyped(a) {
			specErrf("shift of untyped constant by non-constant")
		}
		if isIntSort(a.T) {
			if !isUntyped(b) {
				specErrf("int shift by non-constant")
			}
			if n.Op == token.SHL {
				return intVal(mul(a.S[0], pow2(int(b.K.Int64()))))
			}
			return intVal(app("div", a.S[0], pow2(int(b.K.Int64()))))
		}
		w := bvWidth(leavesOf(a.T, "elem")[0].Sort)
		var cnt string
		if isUntyped(b) {
			k := b.K.Int64()
			if k > int64(w) {
				k = int64(w)
			}
			cnt = bvLitU(uint64(k), w)
		} else if isIntSort(b.T) {
			cnt = ite(le(intLit(int64(w)), b.S[0]), bvLitU(uint64(w), w), int2bv(b.S[0], w))
		} else {
			bw := bvWidth(leavesOf(b.T, "elem")[0].Sort)
			switch {
			case bw == w:
				cnt = b.S[0]
			case bw < w:
				cnt = app(fmt.Sprintf("(_ zero_extend %d)", w-bw), b.S[0])
			default:
				cnt = ite(app("bvuge", b.S[0], bvLitU(uint64(w), bw)), bvLitU(uint64(w), w), app(fmt.Sprintf("(_ extract %d 0)", w-1), b.S[0]))
			}
		}
		op := "bvshl"
		if n.Op == token.SHR {
			op = "bvlshr"
			if isSigned(a.T) {
				op = "bvashr"
			}
		}
		return Val{T: a.T, S: []string{app(op, a.S[0], cnt)}}
	}
	// constant folding
	if isUntyped(a) && isUntyped(b) {
		r := new(big.Int)
		switch n.Op {
		case token.ADD:
			return constVal(r.Add(a.K, b.K))
		case token.SUB:
			return constVal(r.Sub(a.K, b.K))
		case token.MUL:
			return constVal(r.Mul(a.K, b.K))
		case token.QUO:
			return constVal(r.Quo(a.K, b.K))
		case token.REM:
			return constVal(r.Rem(a.K, b.K))
		case token.AND:
			return constVal(r.And(a.K, b.K))
		case token.OR:
			return constVal(r.Or(a.K, b.K))
		case token.XOR:
			return constVal(r.Xor(a.K, b.K))
		}
		a = coerce(a, types.Typ[types.Int])
		b = coerce(b, types.Typ[types.Int])
	}
	if isUntyped(a) {
		a = coerce(a, b.T)
	}
	if isUntyped(b) {
		b = coerce(b, a.T)
	}
	// nil comparisons and multi-slot equality
	if n.Op == token.EQL || n.Op == token.NEQ {
		var r string
		switch {
		case isNilT(a.T) || isNilT(b.T):
			other := a
			if isNilT(a.T) {
				other = b
			}
			switch other.T.Underlying().(type) {
			case *types.Slice:
				r = and(eq(other.S[0], "0"), eq(other.S[2], "0"))
			default:
				r = eq(other.S[0], "0")
			}
		case isStringT(a.T):
			r = e.u.strEq(&state{reach: e.st.reach, mem: e.specMem()}, a, b)
			e.quant = true
		default:
			if len(a.S) != len(b.S) {
				specErrf("comparison of different shapes: %s vs %s", a.T, b.T)
			}
			var cs []string
			for i := range a.S {
				cs = append(cs, eq(a.S[i], b.S[i]))
			}
			r = and(cs...)
		}
		if n.Op == token.NEQ {
			r = not(r)
		}
		return boolVal(r)
	}
	if len(a.S) != 1 || len(b.S) != 1 {
		specErrf("operator %s on composite values", n.Op)
	}
	A, B := a.S[0], b.S[0]
	if isBoolT(a.T) {
		specErrf("operator %s on bool", n.Op)
	}
	if isIntSort(a.T) != isIntSort(b.T) {
		specErrf("mixed int/sized operands in %s (convert explicitly)", n.Op)
	}
	if isIntSort(a.T) {
		switch n.Op {
		case token.ADD:
			return intVal(add(A, B))
		case token.SUB:
			return intVal(sub(A, B))
		case token.MUL:
			return intVal(mul(A, B))
		case token.QUO:
			return intVal(goDiv(A, B))
		case token.REM:
			return intVal(sub(A, mul(B, goDiv(A, B))))
		case token.LSS:
			return boolVal(lt(A, B))
		case token.LEQ:
			return boolVal(le(A, B))
		case token.GTR:
			return boolVal(lt(B, A))
		case token.GEQ:
			return boolVal(le(B, A))
		}
		specErrf("int operator %s", n.Op)
	}
	signed := isSigned(a.T)
	pick := func(u, s string) string {
		if signed {
			return s
		}
		return u
	}
	switch n.Op {
	case token.ADD:
		return Val{T: a.T, S: []string{app("bvadd", A, B)}}
	case token.SUB:
		return Val{T: a.T, S: []string{app("bvsub", A, B)}}
	case token.MUL:
		return Val{T: a.T, S: []string{app("bvmul", A, B)}}
	case token.QUO:
		return Val{T: a.T, S: []string{app(pick("bvudiv", "bvsdiv"), A, B)}}
	case token.REM:
		return Val{T: a.T, S: []string{app(pick("bvurem", "bvsrem"), A, B)}}
	case token.AND:
		return Val{T: a.T, S: []string{app("bvand", A, B)}}
	case token.OR:
		return Val{T: a.T, S: []string{app("bvor", A, B)}}
	case token.XOR:
		return Val{T: a.T, S: []string{app("bvxor", A, B)}}
	case token.AND_NOT:
		return Val{T: a.T, S: []string{app("bvand", A, app("bvnot", B))}}
	case token.LSS:
		return boolVal(app(pick("bvult", "bvslt"), A, B))
	case token.LEQ:
		return boolVal(app(pick("bvule", "bvsle"), A, B))
	case token.GTR:
		return boolVal(app(pick("bvugt", "bvsgt"), A, B))
	case token.GEQ:
		return boolVal(app(pick("bvuge", "bvsge"), A, B))
	}
	specErrf("operator %s", n.Op)
	return Val{}
}

func (e *Env) specMem() *Mem {
	if e.specSites != nil {
		m := &Mem{arr: map[string]string{}, alloc: "0"}
		for s, a := range e.specSites {
			m.arr[s] = a
		}
		return m
	}
	return e.st.mem
}

func isNilT(t types.Type) bool {
	b, ok := t.(*types.Basic)
	return ok && b.Kind() == types.UntypedNil
}
func isStringT(t types.Type) bool {
	b, ok := t.Underlying().(*types.Basic)
	return ok && b.Info()&types.IsString != 0
}
func isBoolT(t types.Type) bool {
	b, ok := t.Underlying().(*types.Basic)
	return ok && b.Info()&types.IsBoolean != 0
}

var convNames = map[string]types.Type{
	"int": types.Typ[types.Int], "uint8": types.Typ[types.Uint8], "byte": types.Typ[types.Uint8], "uint16": types.Typ[types.Uint16],
	"uint32": types.Typ[types.Uint32], "uint64": types.Typ[types.Uint64], "int8": types.Typ[types.Int8], "int16": types.Typ[types.Int16],
	"int32": types.Typ[types.Int32], "int64": types.Typ[types.Int64], "uint": types.Typ[types.Uint], "rune": types.Typ[types.Int32],
}

func (e *Env) callExpr(n *ast.CallExpr) Val {
	name := ""
	switch fn := n.Fun.(type) {
	case *ast.Ident:
		name = fn.Name
	case *ast.SelectorExpr:
		if id, ok := fn.X.(*ast.Ident); ok {
			name = id.Name + "." + fn.Sel.Name
		}
	}
	argc := func(k int) {
		if len(n.Args) != k {
			specErrf("%s expects %d arguments", name, k)
		}
	}
	if t, ok := convNames[name]; ok {
		argc(1)
		v := e.eval(n.Args[0])
		if isUntyped(v) {
			return coerce(v, t)
		}
		return Val{T: t, S: []string{convInt(v.S[0], v.T, t)}}
	}
	switch name {
	case "len":
		argc(1)
		v := e.eval(n.Args[0])
		switch v.T.Underlying().(type) {
		case *types.Slice, *types.Basic:
			return intVal(v.S[1])
		case *types.Map:
			mi := e.u.mapInfo(v.T)
			return intVal(ite(eq(v.S[0], "0"), "0", sel(e.arr(mi.lenSite, SInt), v.S[0])))
		case *types.Array:
			return intVal(intLit(v.T.Underlying().(*types.Array).Len()))
		}
		specErrf("len of %s", v.T)
	case "cap":
		argc(1)
		v := e.eval(n.Args[0])
		return intVal(v.S[2])
	case "ptr":
		argc(1)
		v := e.eval(n.Args[0])
		return intVal(v.S[0])
	case "old":
		argc(1)
		if e.old == nil {
			specErrf("old() not available here")
		}
		ne := *e
		ne.st = e.old
		r := ne.eval(n.Args[0])
		if ne.quant {
			e.quant = true
		}
		return r
	case "implies":
		argc(2)
		return boolVal(implies(e.evalBool(n.Args[0]), e.evalBool(n.Args[1])))
	case "iff":
		argc(2)
		return boolVal(eq(e.evalBool(n.Args[0]), e.evalBool(n.Args[1])))
	case "ite":
		argc(3)
		c := e.evalBool(n.Args[0])
		a, b := e.eval(n.Args[1]), e.eval(n.Args[2])
		if isUntyped(a) && !isUntyped(b) {
			a = coerce(a, b.T)
		}
		if isUntyped(b) && !isUntyped(a) {
			b = coerce(b, a.T)
		}
		if isUntyped(a) && isUntyped(b) {
			a, b = coerce(a, types.Typ[types.Int]), coerce(b, types.Typ[types.Int])
		}
		out := Val{T: a.T}
		for i := range a.S {
			out.S = append(out.S, ite(c, a.S[i], b.S[i]))
		}
		return out
	case "forall", "exists", "forallint", "existsint":
		// forallint(k, P) / existsint(k, P): k ranges over every value of type int
		if strings.HasSuffix(name, "int") {
			if len(n.Args) != 2 {
				specErrf("%s(k, P)", name)
			}
		} else if len(n.Args) != 4 {
			specErrf("%s(k, lo, hi, P)", name)
		}
		id, ok := n.Args[0].(*ast.Ident)
		if !ok {
			specErrf("%s: first argument must be an identifier", name)
		}
		var lo, hi string
		if strings.HasSuffix(name, "int") {
			lo, hi = "(- 9223372036854775808)", "9223372036854775808"
			n = &ast.CallExpr{Fun: n.Fun, Args: []ast.Expr{n.Args[0], nil, nil, n.Args[1]}}
			name = strings.TrimSuffix(name, "int")
		} else {
			lo, hi = e.evalInt(n.Args[1]), e.evalInt(n.Args[2])
		}
		bv := quoteSym("q!" + id.Name)
		ne := e.withBound(id.Name, intVal(bv))
		var facts []string
		ne.qdepth = e.qdepth + 1
		ne.qfacts = &facts
		body := ne.evalBool(n.Args[3])
		e.quant = true
		tf := and(dedup(facts)...)
		if e.qfacts != nil && e.qdepth > 0 {
			// facts not depending on the inner variable could be hoisted; keeping them here is sound and simpler
		}
		if name == "forall" {
			if tf != "true" {
				if e.assume {
					body = and(tf, body)
				} else {
					body = implies(tf, body)
				}
			}
			if pat := pickTrigger(body, bv); pat != "" && autoTriggers {
				return boolVal(fmt.Sprintf("(forall ((%s Int)) (! (=> (and (<= %s %s) (< %s %s)) %s) :pattern (%s)))", bv, lo, bv, bv, hi, body, pat))
			}
			return boolVal(fmt.Sprintf("(forall ((%s Int)) (=> (and (<= %s %s) (< %s %s)) %s))", bv, lo, bv, bv, hi, body))
		}
		if tf != "true" {
			body = and(tf, body)
		}
		return boolVal(fmt.Sprintf("(exists ((%s Int)) (and (<= %s %s) (< %s %s) %s))", bv, lo, bv, bv, hi, body))
	case "forallkey", "existskey":
		// forallkey(k, m, P) / existskey(k, m, P): k ranges over the keys present in map m
		argc(3)
		id, ok := n.Args[0].(*ast.Ident)
		if !ok {
			specErrf("%s: first argument must be an identifier", name)
		}
		m := e.eval(n.Args[1])
		mt, ok := m.T.Underlying().(*types.Map)
		if !ok {
			specErrf("%s: not a map", name)
		}
		mi := e.u.mapInfo(m.T)
		bv := quoteSym("q!" + id.Name)
		var kv Val
		guard := []string{not(eq(m.S[0], "0")), sel(sel(e.arr(mi.domSite, SArr(mi.kSort, SBool)), m.S[0]), bv)}
		var typing []string
		if mi.strKey {
			e.u.ensureStrKeys()
			p, ln := app(strptrFn, bv), app(strlenFn, bv)
			kv = Val{T: mt.Key(), S: []string{p, ln}, KeyID: bv}
			if e.st != nil && e.st.mem != nil && e.specSites == nil {
				typing = append(typing, le(add(p, ln), e.st.mem.alloc))
			}
		} else {
			kv = Val{T: mt.Key(), S: []string{bv}}
			if tf := e.u.typingFact(kv, e.st.mem); tf != "true" {
				typing = append(typing, tf)
			}
		}
		ne := e.withBound(id.Name, kv)
		var facts []string
		ne.qdepth = e.qdepth + 1
		ne.qfacts = &facts
		body := ne.evalBool(n.Args[2])
		e.quant = true
		tf := and(append(dedup(facts), typing...)...)
		if name == "forallkey" {
			// well-typedness of the key (and of what is loaded through it) is assumed when the formula is assumed and
			// may be used when it is proved
			if tf != "true" {
				if e.assume {
					body = and(tf, body)
				} else {
					body = implies(tf, body)
				}
			}
			return boolVal(fmt.Sprintf("(forall ((%s %s)) (=> %s %s))", bv, mi.kSort, and(guard...), body))
		}
		if tf != "true" {
			body = and(tf, body)
		}
		return boolVal(fmt.Sprintf("(exists ((%s %s)) (and %s %s))", bv, mi.kSort, and(guard...), body))
	case "allbytes":
		// allbytes(b, s, P): P holds for every byte b of byte slice / string s; quantified over addresses so that
		// any read of the underlying array triggers the instantiation
		argc(3)
		id, ok := n.Args[0].(*ast.Ident)
		if !ok {
			specErrf("allbytes: first argument must be an identifier")
		}
		sv := e.eval(n.Args[1])
		site := byteSite
		if isStringT(sv.T) {
			site = strSite
		}
		arr := e.arr(site, SBV(8))
		av := quoteSym("q!a." + id.Name)
		ne := e.withBound(id.Name, Val{T: types.Typ[types.Uint8], S: []string{sel(arr, av)}})
		body := ne.evalBool(n.Args[2])
		e.quant = true
		return boolVal(fmt.Sprintf("(forall ((%s Int)) (! (=> (and (<= %s %s) (< %s %s)) %s) :pattern (%s)))", av, sv.S[0], av, av, add(sv.S[0], sv.S[1]), body, sel(arr, av)))
	case "has":
		// has(m, k): key k is present in map m
		argc(2)
		m := e.eval(n.Args[0])
		mt, ok := m.T.Underlying().(*types.Map)
		if !ok {
			specErrf("has: not a map")
		}
		k := coerce(e.eval(n.Args[1]), mt.Key())
		mi := e.u.mapInfo(m.T)
		k = e.keyOf(mi, k)
		dom := e.arr(mi.domSite, SArr(mi.kSort, SBool))
		return boolVal(and(not(eq(m.S[0], "0")), sel(sel(dom, m.S[0]), k.S[0])))
	case "sent", "closed", "lastsent":
		// ghost state of a channel: number of values sent on it so far, whether it was closed, the last value sent
		argc(1)
		ch := e.eval(n.Args[0])
		ct, ok := ch.T.Underlying().(*types.Chan)
		if !ok {
			specErrf("%s: not a channel", name)
		}
		switch name {
		case "sent":
			return intVal(sel(e.arr(chanCountSite, SInt), ch.S[0]))
		case "closed":
			return boolVal(sel(e.arr(chanClosedSite, SBool), ch.S[0]))
		}
		v := Val{T: ct.Elem()}
		for k, l := range leavesOf(ct.Elem(), "elem") {
			v.S = append(v.S, sel(e.arr(chanLastSite(ct.Elem(), k), l.Sort), ch.S[0]))
		}
		return v
	case "samekey":
		// samekey(a, b): two strings used as map keys are the same key (equal contents)
		argc(2)
		a, b := e.eval(n.Args[0]), e.eval(n.Args[1])
		mi := &mapInfo{strKey: true}
		return boolVal(eq(e.keyOf(mi, a).S[0], e.keyOf(mi, b).S[0]))
	case "forallstr", "existsstr":
		// forallstr(k, P) / existsstr(k, P): k ranges over all strings (as map keys: over all key identities)
		argc(2)
		id, ok := n.Args[0].(*ast.Ident)
		if !ok {
			specErrf("%s: first argument must be an identifier", name)
		}
		e.u.ensureStrKeys()
		bv := quoteSym("q!" + id.Name)
		p, ln := app(strptrFn, bv), app(strlenFn, bv)
		kv := Val{T: types.Typ[types.String], S: []string{p, ln}, KeyID: bv}
		typing := "true"
		ne := e.withBound(id.Name, kv)
		var facts []string
		ne.qdepth = e.qdepth + 1
		ne.qfacts = &facts
		body := ne.evalBool(n.Args[1])
		e.quant = true
		tf := and(append(dedup(facts), typing)...)
		if name == "forallstr" {
			if e.assume {
				body = and(tf, body)
			} else {
				body = implies(tf, body)
			}
			return boolVal(fmt.Sprintf("(forall ((%s Int)) %s)", bv, body))
		}
		return boolVal(fmt.Sprintf("(exists ((%s Int)) (and %s %s))", bv, tf, body))
	case "deepeq":
		// deepeq(a, b): a and b (same type) are equal as values: integers, booleans and fixed arrays field by field,
		// strings and byte slices by length and content, other slices element by element; pointers, maps, channels,
		// functions and interfaces are not comparable this way (fields named in further arguments are skipped)
		if len(n.Args) < 2 {
			specErrf("deepeq(a, b, skippedField...)")
		}
		a, b := e.eval(n.Args[0]), e.eval(n.Args[1])
		skip := map[string]bool{}
		for _, x := range n.Args[2:] {
			id, ok := x.(*ast.Ident)
			if !ok {
				specErrf("deepeq: skipped fields are given by name")
			}
			skip[id.Name] = true
		}
		return boolVal(e.deepEq(a.T, a.S, b.S, skip, 0))
	case "mention":
		// mention(t): always true; keeps the term t in the clause so that goal-directed instantiation sees it (a proof hint:
		// "look at this position")
		argc(1)
		v := e.eval(n.Args[0])
		var cs []string
		for _, t := range v.S {
			cs = append(cs, app("=", t, t))
		}
		if len(cs) == 1 {
			return boolVal(cs[0])
		}
		return boolVal(app("and", cs...))
	case "allocated":
		// allocated(x): the object x refers to (pointer, map, slice, channel) exists in the current state, i.e. it was
		// allocated before this point (nil counts as allocated). In a loop invariant: "not created by a later iteration".
		argc(1)
		v := e.eval(n.Args[0])
		if e.st == nil || e.st.mem == nil || e.specSites != nil {
			specErrf("allocated() needs a program state")
		}
		return boolVal(lt(v.S[0], e.st.mem.alloc))
	case "oncedone":
		// oncedone(o): the sync.Once value o (a field or variable, not a copy) has already run its function
		argc(1)
		v := e.eval(n.Args[0])
		if v.Addr == "" {
			specErrf("oncedone: argument must be an addressable sync.Once")
		}
		return boolVal(sel(e.arr("sync.Once.$done", SBool), v.Addr))
	case "instant":
		// instant(t): the monotonic instant (nanoseconds, int64) of a time.Time value
		argc(1)
		v := e.eval(n.Args[0])
		if !isTimeType(v.T) {
			specErrf("instant: not a time.Time")
		}
		return Val{T: types.Typ[types.Int64], S: []string{v.S[timeInstantIdx(v.T)]}}
	case "clock":
		// clock(): the instant returned by the most recent time.Now() (ghost state, monotone)
		argc(0)
		c := sel(e.arr("ghost.clock", SBV(64)), "0")
		if e.specSites == nil {
			e.u.ctx.assert("lib:time.Now", and(app("bvsle", bvLitU(0, 64), c), app("bvsle", c, bvLitU(1<<62, 64))))
		}
		return Val{T: types.Typ[types.Int64], S: []string{c}}
	case "visited":
		// visited(k): inside an invariant of a range-over-map loop: key k has already been produced by the iteration
		argc(1)
		if e.li == nil || e.f == nil {
			specErrf("visited() is only available in invariants of range-over-map loops")
		}
		var info *iterInfo
		for _, ins := range e.li.header.Instrs {
			if nx, ok := ins.(*ssa.Next); ok {
				if r, ok := nx.Iter.(*ssa.Range); ok && iterOf[r] != nil {
					info = iterOf[r][e.f]
				}
			}
		}
		if info == nil {
			specErrf("visited(): the loop does not range over a map")
		}
		mi := e.u.mapInfo(info.mapT)
		mt := info.mapT.Underlying().(*types.Map)
		k := coerce(e.eval(n.Args[0]), mt.Key())
		return boolVal(sel(sel(e.arr("iter."+mi.key, SArr(mi.kSort, SBool)), info.addr), k.S[0]))
	case "framed":
		// framed(): every heap cell that existed at function entry and lies outside the function's modifies set still holds
		// its entry value (an intermediate form of the frame obligation, useful as a stepping stone in long functions)
		argc(0)
		if e.f == nil || e.old == nil {
			specErrf("framed() is only available inside a function body")
		}
		ct := e.f.ct
		entry := &state{reach: e.f.entryR, mem: e.f.entry}
		fenv := e.u.funcEnv(e.f.fn, e.f.params, nil, entry, entry)
		var ranges map[string][]func(a string) string
		if ct != nil {
			ranges, _ = e.u.modRanges(ct, fenv)
		}
		var cs []string
		var sites []string
		for sname := range e.st.mem.arr {
			sites = append(sites, sname)
		}
		sortStringsInPlace(sites)
		for _, sname := range sites {
			if strings.HasPrefix(sname, "ghost.") || strings.HasPrefix(sname, "iter.") || sname == strSite {
				continue
			}
			srt := e.u.siteSort[sname]
			m0 := e.u.arr(e.f.entry, sname, srt)
			mc := e.st.mem.arr[sname]
			if m0 == mc {
				continue
			}
			cs = append(cs, fmt.Sprintf("(forall ((a! Int)) (! (=> (and (< a! %s) %s) (= (select %s a!) (select %s a!))) :pattern ((select %s a!))))", e.f.entry.alloc, not(inAny(ranges[sname], "a!")), mc, m0, mc))
		}
		e.quant = true
		return boolVal(and(cs...))
	case "sameBytes":
		// sameBytes(a, b): byte slices/strings of equal length and content; either argument may be wrapped in old(...).
		// Quantified over the addresses of a, so any read of a's array triggers the instantiation.
		argc(2)
		evalIn := func(x ast.Expr) (Val, string) {
			if c, ok := x.(*ast.CallExpr); ok {
				if id, ok := c.Fun.(*ast.Ident); ok && id.Name == "old" && len(c.Args) == 1 {
					if e.old == nil {
						specErrf("old() not available here")
					}
					ne := *e
					ne.st = e.old
					v := ne.eval(c.Args[0])
					site := byteSite
					if isStringT(v.T) {
						site = strSite
					}
					return v, ne.arr(site, SBV(8))
				}
			}
			v := e.eval(x)
			site := byteSite
			if isStringT(v.T) {
				site = strSite
			}
			return v, e.arr(site, SBV(8))
		}
		a, arrA := evalIn(n.Args[0])
		b, arrB := evalIn(n.Args[1])
		e.quant = true
		av := quoteSym("q!sb")
		return boolVal(and(eq(a.S[1], b.S[1]), fmt.Sprintf("(forall ((%s Int)) (! (=> (and (<= %s %s) (< %s %s)) (= (select %s %s) (select %s (+ %s (- %s %s))))) :pattern ((select %s %s))))",
			av, a.S[0], av, av, add(a.S[0], a.S[1]), arrA, av, arrB, b.S[0], av, a.S[0], arrA, av)))
	case "forallb", "existsb":
		// forallb(k, bits, P): quantify over a bit-vector of the given width
		if len(n.Args) != 3 {
			specErrf("%s(k, bits, P)", name)
		}
		id := n.Args[0].(*ast.Ident)
		w := e.eval(n.Args[1])
		if w.K == nil {
			specErrf("width must be constant")
		}
		width := int(w.K.Int64())
		bv := quoteSym("q!" + id.Name)
		var t types.Type
		switch width {
		case 8:
			t = types.Typ[types.Uint8]
		case 16:
			t = types.Typ[types.Uint16]
		case 32:
			t = types.Typ[types.Uint32]
		case 64:
			t = types.Typ[types.Uint64]
		default:
			specErrf("width %d", width)
		}
		ne := e.withBound(id.Name, Val{T: t, S: []string{bv}})
		body := ne.evalBool(n.Args[2])
		e.quant = true
		q := "forall"
		if name == "existsb" {
			q = "exists"
		}
		return boolVal(fmt.Sprintf("(%s ((%s %s)) %s)", q, bv, SBV(width), body))
	case "be16", "be32", "be64":
		argc(2)
		s := e.eval(n.Args[0])
		off := e.evalInt(n.Args[1])
		nb := map[string]int{"be16": 2, "be32": 4, "be64": 8}[name]
		site, base := byteSite, s.S[0]
		if isStringT(s.T) {
			site = strSite
		}
		var parts []string
		for i := 0; i < nb; i++ {
			parts = append(parts, sel(e.arr(site, SBV(8)), add(base, add(off, intLit(int64(i))))))
		}
		t := map[string]types.Type{"be16": types.Typ[types.Uint16], "be32": types.Typ[types.Uint32], "be64": types.Typ[types.Uint64]}[name]
		return Val{T: t, S: []string{app("concat", parts...)}}
	case "bit":
		argc(2)
		v := e.eval(n.Args[0])
		k := e.eval(n.Args[1])
		if k.K == nil {
			specErrf("bit index must be constant")
		}
		i := k.K.Int64()
		return boolVal(eq(app(fmt.Sprintf("(_ extract %d %d)", i, i), v.S[0]), "#b1"))
	case "iserr":
		argc(2)
		e.u.ensureWraps()
		er, s := e.eval(n.Args[0]), e.eval(n.Args[1])
		return boolVal(and(not(eq(er.S[0], "0")), or(and(eq(er.S[0], s.S[0]), eq(er.S[1], s.S[1])), app(wrapsFn, er.S[1], s.S[1]))))
	case "fresh":
		argc(1)
		if e.old == nil {
			specErrf("fresh() needs an entry state")
		}
		v := e.eval(n.Args[0])
		switch v.T.Underlying().(type) {
		case *types.Slice:
			return boolVal(or(eq(v.S[2], "0"), le(e.old.mem.alloc, v.S[0])))
		default:
			return boolVal(or(eq(v.S[0], "0"), le(e.old.mem.alloc, v.S[0])))
		}
	case "within":
		argc(2)
		a, b := e.eval(n.Args[0]), e.eval(n.Args[1])
		ae, be := spanEnd(a), spanEnd(b)
		return boolVal(or(eq(a.S[2], "0"), and(le(b.S[0], a.S[0]), le(ae, be))))
	case "disjoint":
		argc(2)
		a, b := e.eval(n.Args[0]), e.eval(n.Args[1])
		ae, be := spanEnd(a), spanEnd(b)
		return boolVal(or(eq(a.S[2], "0"), eq(b.S[2], "0"), le(ae, b.S[0]), le(be, a.S[0])))
	case "eqbytes":
		// eqbytes(a, alo, b, blo, n): a[alo+k] == b[blo+k] for k < n  (b evaluated in the same state)
		if len(n.Args) != 5 {
			specErrf("eqbytes(a, alo, b, blo, n)")
		}
		a, b := e.eval(n.Args[0]), e.eval(n.Args[2])
		alo, blo, cnt := e.evalInt(n.Args[1]), e.evalInt(n.Args[3]), e.evalInt(n.Args[4])
		sa, sb := byteSite, byteSite
		if isStringT(a.T) {
			sa = strSite
		}
		if isStringT(b.T) {
			sb = strSite
		}
		e.quant = true
		return boolVal(fmt.Sprintf("(forall ((k! Int)) (=> (and (<= 0 k!) (< k! %s)) (= (select %s (+ %s %s k!)) (select %s (+ %s %s k!)))))",
			cnt, e.arr(sa, SBV(8)), a.S[0], alo, e.arr(sb, SBV(8)), b.S[0], blo))
	case "buflen":
		argc(1)
		b := e.eval(n.Args[0])
		return intVal(sel(e.arr(bufLenSite, SInt), b.S[0]))
	case "bufopen":
		argc(1)
		b := e.eval(n.Args[0])
		return boolVal(not(sel(e.arr(bufFrozSite, SBool), b.S[0])))
	case "bufat":
		argc(2)
		b := e.eval(n.Args[0])
		k := e.evalInt(n.Args[1])
		return Val{T: types.Typ[types.Uint8], S: []string{sel(sel(e.arr(bufDataSite, bufDataSort), b.S[0]), k)}}
	case "oldbytes":
		// oldbytes(s, i): byte i of slice s in the entry heap
		argc(2)
		if e.old == nil {
			specErrf("oldbytes needs entry state")
		}
		s := e.eval(n.Args[0])
		i := e.evalInt(n.Args[1])
		ne := *e
		ne.st = e.old
		return Val{T: types.Typ[types.Uint8], S: []string{sel(ne.arr(byteSite, SBV(8)), add(s.S[0], i))}}
	}
	// spec function call
	if sf := e.lookupSpec(name); sf != nil {
		return e.callSpec(sf, n.Args)
	}
	specErrf("unknown function %q in specification", name)
	return Val{}
}

func (e *Env) lookupSpec(name string) *SpecFunc {
	db := e.u.db
	if db == nil {
		return nil
	}
	if sf, ok := db.Specs[name]; ok {
		return sf
	}
	if e.pkg != nil {
		if sf, ok := db.Specs[shortPkg(e.pkg.Path())+"."+name]; ok {
			return sf
		}
	}
	return nil
}

func (e *Env) specType(pkgShort, txt string) types.Type {
	txt = strings.TrimSpace(txt)
	if t, ok := convNames[txt]; ok {
		return t
	}
	switch txt {
	case "bool":
		return types.Typ[types.Bool]
	case "string":
		return types.Typ[types.String]
	case "[]byte", "[]uint8":
		return types.NewSlice(types.Typ[types.Uint8])
	}
	if strings.HasPrefix(txt, "[]") {
		return types.NewSlice(e.specType(pkgShort, txt[2:]))
	}
	if strings.HasPrefix(txt, "*") {
		return types.NewPointer(e.specType(pkgShort, txt[1:]))
	}
	// named type in a loaded package
	pkgName, tn := "", txt
	if i := strings.Index(txt, "."); i >= 0 {
		pkgName, tn = txt[:i], txt[i+1:]
	}
	for _, sp := range e.u.prog.SSA.AllPackages() {
		if !strings.HasPrefix(sp.Pkg.Path(), modRoot) {
			continue
		}
		if (pkgName == "" && shortPkg(sp.Pkg.Path()) == pkgShort) || sp.Pkg.Name() == pkgName {
			if obj := sp.Pkg.Scope().Lookup(tn); obj != nil {
				if tnn, ok := obj.(*types.TypeName); ok {
					return tnn.Type()
				}
			}
		}
	}
	specErrf("unknown type %q in spec", txt)
	return nil
}

// callSpec applies a (possibly recursive) specification function.
func (e *Env) callSpec(sf *SpecFunc, args []ast.Expr) Val {
	u := e.u
	if len(args) != len(sf.Params) {
		specErrf("spec %s expects %d arguments", sf.Name, len(sf.Params))
	}
	e.quant = true
	def := u.defineSpec(sf)
	var actual, allLeaves []string
	for i, a := range args {
		pt := e.specType(sf.Pkg, sf.Params[i].Type)
		v := coerce(e.eval(a), pt)
		if isIntSort(pt) && !isUntyped(v) && !isIntSort(v.T) {
			specErrf("spec %s: argument %d must be int", sf.Name, i)
		}
		for k, t := range v.S {
			if def.used == nil || def.used[len(allLeaves)+k] {
				actual = append(actual, t)
			}
		}
		allLeaves = append(allLeaves, v.S...)
	}
	for _, site := range def.sites {
		actual = append(actual, e.arr(site, u.siteSort[site]))
	}
	rt := e.specType(sf.Pkg, sf.Ret)
	if e.specSelf == sf {
		// recursive occurrence inside the definition: one unit of fuel less
		e.selfRec = true
		actual = append([]string{"f!"}, actual...)
		return Val{T: rt, S: []string{app(def.sym, actual...)}}
	}
	if def.rec {
		actual = append([]string{"(SF (SF ZF))"}, actual...)
	}
	if len(actual) == 0 {
		return Val{T: rt, S: []string{def.sym}}
	}
	return Val{T: rt, S: []string{app(def.sym, actual...)}}
}

type specDef struct {
	sym   string
	sites []string
	rec   bool
	used  []bool // per flattened parameter leaf: does the body mention it (unused leaves are not parameters)
	frameItem string
	fNames    []string
	fSorts    []string
}

func (u *Unit) defineSpec(sf *SpecFunc) *specDef {
	key := sf.Pkg + "." + sf.Name
	if d, ok := u.specDefs[key]; ok {
		return d
	}
	sym := quoteSym("spec:" + key)
	d := &specDef{sym: sym}
	u.specDefs[key] = d // allow recursion
	var pkg *types.Package
	for _, sp := range u.prog.SSA.AllPackages() {
		if strings.HasPrefix(sp.Pkg.Path(), modRoot) && shortPkg(sp.Pkg.Path()) == sf.Pkg {
			pkg = sp.Pkg
		}
	}
	// start from "no parameter leaf is used" and grow (a leaf that is only passed on to the recursive call is not used)
	{
		probe := &Env{u: u}
		n := 0
		for _, p := range sf.Params {
			n += len(leavesOf(probe.specType(sf.Pkg, p.Type), "elem"))
		}
		d.used = make([]bool, n)
	}
	// iterate until the set of heap sites read by the body is stable
	for iter := 0; iter < 8; iter++ {
		env := &Env{u: u, st: &state{reach: "true", mem: &Mem{arr: map[string]string{}, alloc: "0"}}, bound: map[string]Val{}, pkg: pkg, specSites: map[string]string{}, specSelf: sf}
		for _, s := range d.sites {
			env.specSites[s] = quoteSym("H:" + s)
		}
		var formals []string
		for _, p := range sf.Params {
			pt := env.specType(sf.Pkg, p.Type)
			ls := leavesOf(pt, "elem")
			v := Val{T: pt}
			for i, l := range ls {
				nm := quoteSym(fmt.Sprintf("p!%s.%d", p.Name, i))
				v.S = append(v.S, nm)
				formals = append(formals, fmt.Sprintf("(%s %s)", nm, l.Sort))
			}
			env.bound[p.Name] = v
		}
		rt := env.specType(sf.Pkg, sf.Ret)
		body := coerce(env.eval(sf.Body), rt)
		var sites []string
		for s := range env.specSites {
			sites = append(sites, s)
		}
		sortStringsInPlace(sites)
		// which parameter leaves does the body mention?
		bodySyms := map[string]bool{}
		for _, t := range symsOf(body.S[0]) {
			bodySyms[t] = true
		}
		var used []bool
		var keptFormals []string
		for _, fm := range formals {
			inner := fm[1 : len(fm)-1]
			nm := inner
			if strings.HasPrefix(inner, "|") {
				j := strings.Index(inner[1:], "|")
				nm = inner[:j+2]
			} else if j := strings.Index(inner, " "); j > 0 {
				nm = inner[:j]
			}
			used = append(used, bodySyms[nm])
			if bodySyms[nm] {
				keptFormals = append(keptFormals, fm)
			}
		}
		usedStable := d.used != nil && len(d.used) == len(used)
		if usedStable {
			for i := range used {
				if used[i] != d.used[i] {
					usedStable = false
				}
			}
		}
		if !usedStable {
			d.used = used
			d.sites = sites
			continue
		}
		formals = keptFormals
		if strings.Join(sites, ",") == strings.Join(d.sites, ",") {
			for _, s := range sites {
				formals = append(formals, fmt.Sprintf("(%s %s)", quoteSym("H:"+s), SArr(SInt, u.siteSort[s])))
			}
			rs := leavesOf(rt, "elem")[0].Sort
			if !env.selfRec {
				if strings.Contains(body.S[0], "(forall ") || strings.Contains(body.S[0], "(exists ") {
					// in the quantifier-free relaxation a quantified predicate becomes uninterpreted
					var srt []string
					for _, fm := range formals {
						inner := fm[1 : len(fm)-1]
						if strings.HasPrefix(inner, "|") {
							j := strings.Index(inner[1:], "|")
							srt = append(srt, strings.TrimSpace(inner[j+2:]))
						} else {
							j := strings.Index(inner, " ")
							srt = append(srt, strings.TrimSpace(inner[j:]))
						}
					}
					u.ctx.rawQF(sym, fmt.Sprintf("(define-fun %s (%s) %s %s)", sym, strings.Join(formals, " "), rs, body.S[0]),
						fmt.Sprintf("(declare-fun %s (%s) %s)", sym, strings.Join(srt, " "), rs))
					return d
				}
				u.ctx.raw(sym, fmt.Sprintf("(define-fun %s (%s) %s %s)", sym, strings.Join(formals, " "), rs, body.S[0]))
				return d
			}
			// recursive spec function: fuel encoding (bounded unfolding, no matching loops)
			d.rec = true
			if _, ok := u.ctx.names["Fuel"]; !ok {
				u.ctx.raw("Fuel", "(declare-datatypes ((Fuel 0)) (((ZF) (SF (pf Fuel)))))")
			}
			var sorts, names []string
			for _, fm := range formals {
				// "(name sort)"
				inner := fm[1 : len(fm)-1]
				var nm, st string
				if strings.HasPrefix(inner, "|") {
					j := strings.Index(inner[1:], "|")
					nm, st = inner[:j+2], strings.TrimSpace(inner[j+2:])
				} else {
					j := strings.Index(inner, " ")
					nm, st = inner[:j], strings.TrimSpace(inner[j:])
				}
				names = append(names, nm)
				sorts = append(sorts, st)
			}
			lhsS := app(sym, append([]string{"(SF f!)"}, names...)...)
			lhs0 := app(sym, append([]string{"f!"}, names...)...)
			u.ctx.raw(sym, fmt.Sprintf("(declare-fun %s (Fuel %s) %s)\n(assert (forall ((f! Fuel) %s) (! (= %s %s) :pattern (%s))))\n(assert (forall ((f! Fuel) %s) (! (= %s %s) :pattern (%s))))",
				sym, strings.Join(sorts, " "), rs,
				strings.Join(formals, " "), lhsS, body.S[0], lhsS,
				strings.Join(formals, " "), lhsS, lhs0, lhsS))
			d.fNames, d.fSorts = names, sorts
			if sf.ReadsParam != "" && len(sites) == 1 && !u.noFrameAxioms {
				u.frameAxiom(sf, d, sym, formals, names, sorts, sites[0])
			}
			return d
		}
		d.sites = sites
	}
	specErrf("spec %s: heap footprint does not stabilise", sf.Name)
	return nil
}

func sortStringsInPlace(s []string) {
	for i := 1; i < len(s); i++ {
		for j := i; j > 0 && s[j] < s[j-1]; j-- {
			s[j], s[j-1] = s[j-1], s[j]
		}
	}
}


// frameAxiom: a recursive spec function with a declared footprint has the same value in two heaps that agree on the
// footprint. The axiom is justified by the lemma unit "framelemma:<pkg>.<name>" (proved by induction, see encodeFrameLemma).
func (u *Unit) frameAxiom(sf *SpecFunc, d *specDef, sym string, formals, names, sorts []string, site string) {
	// locate the formal names of the read slice's pointer and of the bound
	ptrName, hiName := "", ""
	for _, n := range names {
		if n == quoteSym("p!"+sf.ReadsParam+".0") {
			ptrName = n
		}
		if n == quoteSym("p!"+sf.ReadsHi+".0") {
			hiName = n
		}
	}
	if ptrName == "" || hiName == "" {
		return
	}
	hName := quoteSym("H:" + site)
	var fs1, args1, args2 []string
	for i, n := range names {
		if n == hName {
			continue
		}
		fs1 = append(fs1, fmt.Sprintf("(%s %s)", n, sorts[i]))
		args1 = append(args1, n)
		args2 = append(args2, n)
	}
	arrSort := SArr(SInt, u.siteSort[site])
	lo, err := strconvAtoi(sf.ReadsLo)
	if err != nil {
		return
	}
	a1 := app(sym, append(append([]string{"f!"}, args1...), "H1!")...)
	a2 := app(sym, append(append([]string{"g!"}, args2...), "H2!")...)
	body := fmt.Sprintf("(=> (forall ((a! Int)) (=> (and (<= (+ %s %d) a!) (< a! (+ %s %s))) (= (select H1! a!) (select H2! a!)))) (= %s %s))", ptrName, lo, ptrName, hiName, a1, a2)
	u.ctx.raw(sym+"!frame", fmt.Sprintf("(assert (forall ((f! Fuel) (g! Fuel) %s (H1! %s) (H2! %s)) (! %s :pattern (%s %s))))", strings.Join(fs1, " "), arrSort, arrSort, body, a1, a2))
	u.usedLemmas["frame:"+sf.Pkg+"."+sf.Name] = true
	d.frameItem = sym + "!frame"
}

func strconvAtoi(s string) (int, error) {
	n := 0
	if s == "" {
		return 0, fmt.Errorf("empty")
	}
	for _, c := range s {
		if c < '0' || c > '9' {
			return 0, fmt.Errorf("not a number")
		}
		n = n*10 + int(c-'0')
	}
	return n, nil
}


// encodeFrameLemma proves the frame axiom of a recursive spec function by induction on its bound parameter.
func encodeFrameLemma(p *Program, db *ContractDB, key string) *UnitResult {
	sf := db.Specs[key]
	res := &UnitResult{Key: "framelemma:" + key}
	if sf == nil || sf.ReadsParam == "" {
		res.Rejected = "no such spec function with a reads clause"
		return res
	}
	u := newUnit(p, db, nil)
	u.rootKey = "framelemma:" + key
	res.unit = u
	defer func() {
		if r := recover(); r != nil {
			res.Rejected = fmt.Sprint(r)
		}
	}()
	u.noFrameAxioms = true
	d := u.defineSpec(sf)
	if !d.rec || len(d.sites) != 1 {
		res.Rejected = "frame lemma needs a recursive spec function over one heap site"
		return res
	}
	site := d.sites[0]
	hName := quoteSym("H:" + site)
	arrSort := SArr(SInt, u.siteSort[site])
	h1 := u.ctx.declare("H1!", arrSort)
	h2 := u.ctx.declare("H2!", arrSort)
	var args []string
	ptr, hi := "", ""
	for i, n := range d.fNames {
		if n == hName {
			continue
		}
		c := u.ctx.declare(quoteSym("fl."+strings.Trim(n, "|")), d.fSorts[i])
		args = append(args, c)
		if n == quoteSym("p!"+sf.ReadsParam+".0") {
			ptr = c
		}
		if n == quoteSym("p!"+sf.ReadsHi+".0") {
			hi = c
		}
	}
	lo, err := strconvAtoi(sf.ReadsLo)
	if ptr == "" || hi == "" || err != nil {
		res.Rejected = "reads clause must be d[<const>:<int parameter>]"
		return res
	}
	mk := func(hiTerm string) string {
		var a1, a2 []string
		for _, a := range args {
			if a == hi {
				a1 = append(a1, hiTerm)
				a2 = append(a2, hiTerm)
			} else {
				a1 = append(a1, a)
				a2 = append(a2, a)
			}
		}
		f1 := app(d.sym, append(append([]string{"(SF (SF ZF))"}, a1...), h1)...)
		f2 := app(d.sym, append(append([]string{"(SF (SF ZF))"}, a2...), h2)...)
		return fmt.Sprintf("(=> (forall ((a! Int)) (=> (and (<= (+ %s %d) a!) (< a! (+ %s %s))) (= (select %s a!) (select %s a!)))) (= %s %s))", ptr, lo, ptr, hiTerm, h1, h2, f1, f2)
	}
	pk := mk(hi)
	base := &state{reach: u.ctx.def("fl.base", SBool, le(hi, "0")), mem: u.entryMem}
	o := u.oblige(nil, base, "lemma", "frame."+sf.Name+"/base", 0, pk)
	o.Quant = true
	step := &state{reach: u.ctx.def("fl.step", SBool, and(le("0", hi), pk)), mem: u.entryMem}
	o2 := u.oblige(nil, step, "lemma", "frame."+sf.Name+"/step", 0, mk(add(hi, "1")))
	o2.Quant = true
	res.Obls = u.obls
	return res
}


// autoTriggers: experiments showed that restricting instantiation to one inferred trigger loses proofs; kept off.
const autoTriggers = false

// pickTrigger chooses an instantiation pattern for a quantified specification: the smallest term
// (select A idx) whose index mentions the bound variable, contains no nested select and no other quantifier.
func pickTrigger(body, bv string) string {
	if strings.Contains(body, "(forall ") || strings.Contains(body, "(exists ") {
		return ""
	}
	best := ""
	for i := 0; i < len(body); i++ {
		if !strings.HasPrefix(body[i:], "(select ") {
			continue
		}
		// find the end of this term
		depth, inq, end := 0, false, -1
		for k := i; k < len(body); k++ {
			c := body[k]
			if c == '|' {
				inq = !inq
			}
			if inq {
				continue
			}
			if c == '(' {
				depth++
			} else if c == ')' {
				depth--
				if depth == 0 {
					end = k
					break
				}
			}
		}
		if end < 0 {
			break
		}
		term := body[i : end+1]
		inner := term[len("(select "):]
		if strings.Contains(inner, "(select ") || strings.Contains(inner, "(ite ") || strings.Contains(inner, "bv2nat") {
			continue
		}
		// the bound variable must occur as a token in the index
		if !strings.Contains(inner, " "+bv+")") && !strings.Contains(inner, " "+bv+" ") && !strings.HasSuffix(strings.TrimSuffix(inner, ")"), " "+bv) {
			continue
		}
		// the array must be a plain symbol (first argument)
		if inner == "" || inner[0] == '(' {
			continue
		}
		if best == "" || len(term) < len(best) {
			best = term
		}
	}
	return best
}

// spanEnd: one past the last address of the backing array of a slice value (capacity times the element stride).
func spanEnd(v Val) string {
	stride := int64(1)
	if sl, ok := v.T.Underlying().(*types.Slice); ok {
		stride = int64(elemStride(sl.Elem()))
	}
	return add(v.S[0], mul(v.S[2], intLit(stride)))
}

func isTimeType(t types.Type) bool {
	n, ok := types.Unalias(t).(*types.Named)
	return ok && n.Obj().Pkg() != nil && n.Obj().Pkg().Path() == "time" && n.Obj().Name() == "Time"
}

// keyOf converts a key value to the term that indexes the map's arrays (string keys: their identity).
func (e *Env) keyOf(mi *mapInfo, k Val) Val {
	if !mi.strKey {
		return k
	}
	if k.KeyID != "" {
		return Val{T: k.T, S: []string{k.KeyID}}
	}
	if e.specSites != nil {
		specErrf("string map keys inside spec function bodies must be variables bound by forallkey/existskey")
	}
	return Val{T: k.T, S: []string{e.u.strKeyTerm(e.arr(strSite, SBV(8)), k)}}
}

// deepEq builds the value equality of two flattened values of type t.
func (e *Env) deepEq(t types.Type, a, b []string, skip map[string]bool, depth int) string {
	t = types.Unalias(t)
	switch u := t.Underlying().(type) {
	case *types.Basic:
		if u.Info()&types.IsString != 0 {
			arr := e.arr(strSite, SBV(8))
			e.quant = true
			k := quoteSym(fmt.Sprintf("q!de%d", e.u.ctx.nextID))
			e.u.ctx.nextID++
			return and(eq(a[1], b[1]), fmt.Sprintf("(forall ((%s Int)) (=> (and (<= 0 %s) (< %s %s)) (= (select %s (+ %s %s)) (select %s (+ %s %s)))))", k, k, k, a[1], arr, a[0], k, arr, b[0], k))
		}
		return eq(a[0], b[0])
	case *types.Struct:
		var cs []string
		off := 0
		for i := 0; i < u.NumFields(); i++ {
			n := len(leavesOf(u.Field(i).Type(), "elem"))
			if !skip[u.Field(i).Name()] {
				cs = append(cs, e.deepEq(u.Field(i).Type(), a[off:off+n], b[off:off+n], skip, depth+1))
			}
			off += n
		}
		return and(cs...)
	case *types.Array:
		n := len(leavesOf(u.Elem(), "elem"))
		var cs []string
		for i := 0; i < int(u.Len()); i++ {
			cs = append(cs, e.deepEq(u.Elem(), a[i*n:(i+1)*n], b[i*n:(i+1)*n], skip, depth+1))
		}
		return and(cs...)
	case *types.Slice:
		ls := leavesOf(u.Elem(), "elem")
		stride := elemStride(u.Elem())
		e.quant = true
		k := quoteSym(fmt.Sprintf("q!de%d", e.u.ctx.nextID))
		e.u.ctx.nextID++
		var cs []string
		for _, l := range ls {
			if l.Kind == "ptr" || l.Kind == "map" || l.Kind == "chan" || l.Kind == "func" || strings.HasPrefix(l.Kind, "iface") || l.Kind == "slice.ptr" || l.Kind == "str.ptr" {
				specErrf("deepeq: slice elements of type %s are not supported", u.Elem())
			}
			if l.Kind == "slice.len" || l.Kind == "slice.cap" || l.Kind == "str.len" {
				specErrf("deepeq: slice elements of type %s are not supported", u.Elem())
			}
			arr := e.arr(l.Site, l.Sort)
			cs = append(cs, eq(sel(arr, add(a[0], add(mul(k, intLit(int64(stride))), intLit(int64(l.Off))))), sel(arr, add(b[0], add(mul(k, intLit(int64(stride))), intLit(int64(l.Off)))))))
		}
		return and(eq(a[1], b[1]), fmt.Sprintf("(forall ((%s Int)) (=> (and (<= 0 %s) (< %s %s)) %s))", k, k, k, a[1], and(cs...)))
	}
	specErrf("deepeq: values of type %s are not comparable", t)
	return ""
}
