package main

import (
	"regexp"
	"encoding/json"
	"flag"
	"fmt"
	"os"
	"path/filepath"
	"sort"
	"strconv"
	"strings"
	"sync"
	"time"
)

type KnownFinding struct {
	Property   string `json:"property"`
	Obligation string `json:"obligation"`
	Status     string `json:"status"` // known | fixed
	Except     string `json:"except,omitempty"`
	What       string `json:"what"`
	Commit     string `json:"commit,omitempty"`
	Witness    string `json:"witness,omitempty"`
}

func loadKnownFindings() []KnownFinding {
	var out []KnownFinding
	data, err := os.ReadFile(filepath.Join(verifRoot(), "known_findings.jsonl"))
	if err != nil {
		return nil
	}
	for _, line := range strings.Split(string(data), "\n") {
		line = strings.TrimSpace(line)
		if line == "" || strings.HasPrefix(line, "#") {
			continue
		}
		var k KnownFinding
		if err := json.Unmarshal([]byte(line), &k); err == nil {
			out = append(out, k)
		}
	}
	return out
}

type oblReport struct {
	Name    string  `json:"name"`
	Kind    string  `json:"kind"`
	Pos     string  `json:"pos,omitempty"`
	Verdict string  `json:"verdict"`
	Solver  string  `json:"solver,omitempty"`
	Seconds float64 `json:"seconds"`
	Quant   bool    `json:"quantified,omitempty"`
}

func sanitize(s string) string {
	r := strings.NewReplacer("/", "_", " ", "_", "*", "", "(", "", ")", "", "▸", ">", "·", ".", ":", "_", "#", "n", "[", "", "]", "", "@", "_at_")
	return r.Replace(s)
}

func cmdCheck(args []string) int {
	fs := flag.NewFlagSet("check", flag.ExitOnError)
	prop := fs.String("p", "", "property id")
	tier := fs.String("tier", "quick", "quick|thorough")
	verbose := fs.Bool("v", false, "verbose")
	only := fs.String("only", "", "development aid: restrict the roots to those matching this regular expression (evidence is then partial)")
	fs.Parse(args)
	if t := os.Getenv("VERIF_TIER"); t != "" && *tier == "" {
		*tier = t
	}
	seed := 0
	if s := os.Getenv("VERIF_SEED"); s != "" {
		seed, _ = strconv.Atoi(s)
	}
	pd := propDefs[*prop]
	if pd == nil {
		fmt.Fprintf(os.Stderr, "unknown property %q\n", *prop)
		return 2
	}
	t0 := time.Now()
	p, err := loadProgram()
	if err != nil {
		// the tree must compile; a load failure is an infrastructure error, not a violation
		fmt.Fprintln(os.Stderr, "govc: cannot load the repository:", err)
		return 2
	}
	defer p.cleanup()
	defer cleanupQueries()
	defer saveStrategy()
	db := loadContracts(p)
	loadSec := time.Since(t0).Seconds()
	timeout := 30 * time.Second
	needAgree := 1
	if *tier == "thorough" {
		timeout = 60 * time.Second
		needAgree = 2
	}
	roots := pd.resolveRoots(p, *tier)
	if *only != "" {
		re := regexp.MustCompile(*only)
		var keep []string
		for _, r := range roots {
			if re.MatchString(r) {
				keep = append(keep, r)
			}
		}
		roots = keep
	}
	known := loadKnownFindings()

	type unitOut struct {
		res *UnitResult
	}
	// Dependency closure: a unit that uses a callee by its contract, or assumes a lemma, is only as good as the
	// verification of that callee / lemma. Those units are added to the property's roots (transitively), so that a
	// property's check never rests on obligations that only another property's check would discharge.
	var results []*UnitResult
	var wg sync.WaitGroup
	var encMu sync.Mutex // encoding shares global caches; keep it sequential
	sem := make(chan struct{}, 4)
	seenRoot := map[string]bool{}
	isDep := map[string]bool{}
	var depMu sync.Mutex
	queue := append([]string(nil), roots...)
	for _, r := range roots {
		seenRoot[r] = true
	}
	listed := len(roots)
	var added []string
	for qi := 0; qi < len(queue); qi++ {
		key := queue[qi]
		var res *UnitResult
		if strings.HasPrefix(key, "framelemma:") {
			res = encodeFrameLemma(p, db, strings.TrimPrefix(key, "framelemma:"))
		} else if strings.HasPrefix(key, "lemma:") {
			encMu.Lock()
			res = encodeLemma(p, db, strings.TrimPrefix(key, "lemma:"))
			encMu.Unlock()
		} else {
			fn := p.Func(strings.TrimSuffix(key, "!safety"))
			if fn == nil {
				results = append(results, &UnitResult{Key: key, Rejected: "no such function in the current tree"})
				continue
			}
			encMu.Lock()
			res = encodeUnitMode(p, db, fn, strings.HasSuffix(key, "!safety"))
			encMu.Unlock()
		}
		results = append(results, res)
		if *only == "" {
			var deps []string
			for _, k := range res.ByContract {
				if ct := db.forFunc(k); ct != nil && ct.Mode == "contract" && p.Func(k) != nil {
					deps = append(deps, k)
				}
			}
			for _, l := range res.UsedLemmas {
				if strings.HasPrefix(l, "frame:") {
					deps = append(deps, "framelemma:"+strings.TrimPrefix(l, "frame:"))
				} else {
					deps = append(deps, "lemma:"+l)
				}
			}
			for _, d := range deps {
				depMu.Lock()
				isDep[d] = true
				depMu.Unlock()
				if !seenRoot[d] {
					seenRoot[d] = true
					queue = append(queue, d)
					added = append(added, d)
				}
			}
		}
		wg.Add(1)
		sem <- struct{}{}
		go func(res *UnitResult) {
			defer wg.Done()
			defer func() { <-sem }()
			ts := time.Now()
			solveUnit(res, Options{Timeout: timeout, NeedAgree: needAgree, Workers: 6, Only: func(o *Obligation) bool {
				depMu.Lock()
				dep := isDep[res.Key]
				depMu.Unlock()
				// a unit other units of this property use by contract must be discharged in full here
				return dep || pd.ownsObligation(o)
			}})
			if os.Getenv("GOVC_DEBUG") != "" {
				fmt.Fprintf(os.Stderr, "unit %s: %d obligations solved in %.1fs\n", res.Key, len(res.Obls), time.Since(ts).Seconds())
			}
		}(res)
	}
	_ = listed
	roots = queue
	wg.Wait()

	// classify
	var violations, knownLines []string
	var reports []oblReport
	total, discharged := 0, 0
	byBackend := map[string]int{}
	solverSec := 0.0
	var functions, trusted, inlined, byContract, notes, specErrs, rejected []string
	tset, iset, cset := map[string]bool{}, map[string]bool{}, map[string]bool{}
	replayDir := filepath.Join(verifRoot(), "replay", pd.ID)
	replays := 0
	const maxReplays = 8
	for _, res := range results {
		functions = append(functions, res.Key)
		if res.Rejected != "" {
			rejected = append(rejected, res.Key+": "+res.Rejected)
			path := writeReplayNote(replayDir, res.Key+"/rejected", "unit rejected: "+res.Rejected, "")
			violations = append(violations, fmt.Sprintf("VIOLATION property=%s replay=%s obligation=%s/rejected no-failing-input-found", pd.ID, path, res.Key))
			continue
		}
		for _, e := range res.SpecErrors {
			specErrs = append(specErrs, e)
		}
		if len(res.SpecErrors) > 0 {
			path := writeReplayNote(replayDir, res.Key+"/spec-error", strings.Join(res.SpecErrors, "\n"), "")
			violations = append(violations, fmt.Sprintf("VIOLATION property=%s replay=%s obligation=%s/spec-error no-failing-input-found", pd.ID, path, res.Key))
		}
		notes = append(notes, res.Notes...)
		for _, k := range res.Trusted {
			tset[k] = true
		}
		for _, k := range res.Inlined {
			iset[k] = true
		}
		for _, k := range res.ByContract {
			cset[k] = true
		}
		for _, o := range res.Obls {
			if o.Res.Verdict == "skipped" {
				continue
			}
			total++
			solverSec += o.Res.Seconds
			rep := oblReport{Name: o.Name, Kind: o.Kind, Pos: o.Pos, Verdict: o.Res.Verdict, Solver: o.Res.Solver, Seconds: o.Res.Seconds, Quant: o.Quant}
			if o.Res.Verdict == "unsat" {
				discharged++
				byBackend[o.Res.Solver]++
				reports = append(reports, rep)
				continue
			}
			if o.Kind == "cover" {
				reports = append(reports, rep)
				path := writeReplayNote(replayDir, o.Name, "vacuity guard failed: under the contract's assumptions this point is unreachable (contradictory requires, invariants or library model); every obligation behind it would hold vacuously", o.Res.Output)
				violations = append(violations, fmt.Sprintf("VIOLATION property=%s replay=%s obligation=%s vacuous no-failing-input-found", pd.ID, path, o.Name))
				continue
			}
			// not discharged: known finding?
			handled := false
			for _, k := range known {
				if k.Obligation == o.Name && k.Status == "known" {
					ok, why := recheckExcept(res, o, k, timeout)
					if ok {
						knownLines = append(knownLines, fmt.Sprintf("KNOWN-FINDING: property=%s %s [%s]", pd.ID, k.What, o.Name))
						rep.Verdict = "known-finding"
						handled = true
					} else {
						rep.Verdict = o.Res.Verdict + " (outside known finding: " + why + ")"
					}
					break
				}
			}
			reports = append(reports, rep)
			if handled {
				continue
			}
			replays++
			tr := time.Now()
			line := reportViolation(p, res, o, pd, replayDir, timeout, replays <= maxReplays)
			if os.Getenv("GOVC_DEBUG") != "" {
				fmt.Fprintf(os.Stderr, "report %s: %.1fs\n", o.Name, time.Since(tr).Seconds())
			}
			violations = append(violations, line)
		}
	}
	for k := range tset {
		trusted = append(trusted, k)
	}
	for k := range iset {
		inlined = append(inlined, k)
	}
	for k := range cset {
		byContract = append(byContract, k)
	}
	sort.Strings(trusted)
	sort.Strings(inlined)
	sort.Strings(byContract)
	sort.Strings(knownLines)
	knownLines = dedup(knownLines)

	// evidence
	samples := []any{}
	for i, r := range reports {
		if i < 12 || r.Verdict != "unsat" {
			samples = append(samples, r)
		}
		if len(samples) >= 40 {
			break
		}
	}
	if len(samples) == 0 {
		samples = append(samples, map[string]string{"note": "no obligations"})
	}
	// the slowest obligations (margin to the per-query timeout)
	slow := append([]oblReport(nil), reports...)
	sort.Slice(slow, func(i, j int) bool { return slow[i].Seconds > slow[j].Seconds })
	if len(slow) > 8 {
		slow = slow[:8]
	}
	if os.Getenv("GOVC_SLOW") != "" {
		for _, r := range slow {
			fmt.Fprintf(os.Stderr, "slow: %.1fs %s [%s]\n", r.Seconds, r.Name, r.Solver)
		}
	}
	knownCount := 0
	for _, r := range reports {
		if r.Verdict == "known-finding" {
			knownCount++
		}
	}
	level := pd.Level
	if level == "" {
		level = "proof"
	}
	cov := map[string]any{
		// obligations covered by a recorded known finding are reported separately: they are neither claimed nor counted as proved
		"obligations":              total - knownCount,
		"discharged":               discharged,
		"obligations_generated":    total,
		"known_finding_obligations": knownCount,
		"checker_cmd":              fmt.Sprintf("bin/govc check -p %s -tier %s", pd.ID, *tier),
		"trusted_base":             trustedBase(trusted),
		"functions_under_contract": functions,
		"functions_inlined":        inlined,
		"callees_by_contract":      byContract,
		"by_backend":               byBackend,
		"solver_s":                 round2(solverSec),
		"load_s":                   round2(loadSec),
		"samples":                  samples,
		"slowest_obligations":      slow,
		"decided":                  pd.Decided,
		"not_decided":              pd.Undecided,
		"notes":                    dedup(notes),
		"contract_files":           relFiles(db.Files, p.Repo),
		"explanation":              pd.Decided,
		"evaluations":              total,
		"distinct_nontrivial":      countNontrivial(reports),
		"rule":                     "one evaluation per proof obligation generated from the current source; non-trivial = not syntactically true and decided by an SMT solver",
	}
	if len(rejected) > 0 {
		cov["rejected_units"] = rejected
	}
	if len(specErrs) > 0 {
		cov["spec_errors"] = specErrs
	}
	if len(db.Errors) > 0 {
		cov["contract_parse_errors"] = db.Errors
	}
	ev := map[string]any{
		"property_id": pd.ID,
		"tier":        *tier,
		"seed":        seed,
		"level":       level,
		"coverage":    cov,
		"assumptions": append(append(baseAssumptions(), pd.Assume...), rootPreconditions(db, seenRoot)...),
		"wall_s":      round2(time.Since(t0).Seconds()),
		"violations":  len(violations),
	}
	evDir := filepath.Join(verifRoot(), "evidence")
	if r := os.Getenv("GOVC_REPO"); r != "" && r != "/repo" {
		// a run against another tree (a seeded change in a scratch worktree) must not overwrite the evidence of /repo
		evDir = filepath.Join(verifRoot(), ".work", "evidence-other-tree")
	}
	os.MkdirAll(evDir, 0o755)
	data, _ := json.MarshalIndent(ev, "", " ")
	os.WriteFile(filepath.Join(evDir, pd.ID+".json"), append(data, '\n'), 0o644)

	for _, l := range knownLines {
		fmt.Println(l)
	}
	if *verbose {
		for _, r := range reports {
			if r.Verdict != "unsat" {
				fmt.Printf("  %s %s %s\n", r.Verdict, r.Name, r.Pos)
			}
		}
	}
	for _, e := range db.Errors {
		fmt.Println("contract parse error:", e)
	}
	fmt.Printf("govc: property %s tier %s: %d units, %d obligations, %d discharged, %d known findings, %d violations, %.1fs\n",
		pd.ID, *tier, len(results), total, discharged, knownCount, len(violations), time.Since(t0).Seconds())
	if len(db.Errors) > 0 && len(violations) == 0 {
		path := writeReplayNote(replayDir, "contracts/parse-error", strings.Join(db.Errors, "\n"), "")
		violations = append(violations, fmt.Sprintf("VIOLATION property=%s replay=%s obligation=contracts/parse-error no-failing-input-found", pd.ID, path))
	}
	if total == 0 && len(violations) == 0 {
		path := writeReplayNote(replayDir, "vacuity/no-obligations", "no obligations were generated", "")
		violations = append(violations, fmt.Sprintf("VIOLATION property=%s replay=%s obligation=vacuity/no-obligations no-failing-input-found", pd.ID, path))
	}
	if len(violations) > 0 {
		for _, v := range violations {
			fmt.Println(v)
		}
		return 1
	}
	return 0
}

func countNontrivial(rs []oblReport) int {
	n := 0
	seen := map[string]bool{}
	for _, r := range rs {
		if r.Solver != "trivial" && !seen[r.Name] {
			seen[r.Name] = true
			n++
		}
	}
	return n
}

func dedup(xs []string) []string {
	seen := map[string]bool{}
	var out []string
	for _, x := range xs {
		if !seen[x] {
			seen[x] = true
			out = append(out, x)
		}
	}
	return out
}

func round2(x float64) float64 { return float64(int(x*100+0.5)) / 100 }

func relFiles(fs []string, repo string) []string {
	var out []string
	for _, f := range fs {
		out = append(out, strings.TrimPrefix(f, repo+"/"))
	}
	return out
}

func trustedBase(models []string) []string {
	out := []string{
		"go/packages + go/types + go/ssa (x/tools v0.29.0) front end",
		"govc encoding of Go semantics into SMT-LIB (Int for int with per-operation range obligations, bit-vectors for sized integers, typed heap arrays)",
		"SMT solvers z3 5.1.0, z3 4.8.12, cvc5 1.0 (an obligation is discharged when a solver answers unsat)",
		"Go memory safety without package unsafe: heap cells of different struct fields / element types never alias; loaded pointers and slice headers are well-formed",
		"A1: every input slice capacity and string length is at most 2^40",
	}
	for _, m := range models {
		out = append(out, "library model: "+m)
	}
	return out
}

func baseAssumptions() []string {
	return []string{
		"implicit preconditions: pointer method receivers are non-nil; parameters of a type with a //@ valid declaration satisfy it (checked at contract-mode call sites)",
		"termination is proved only for loops with a written or inferred variant; other loops are listed in notes",
		"specification expressions themselves are not checked for definedness (out-of-range selects are unconstrained values)",
		"service/attachment/terminal are verified against /repo/protocol (the working tree), not the protocol version pinned in their go.mod",
	}
}

func writeReplayNote(dir, name, text, solverOut string) string {
	os.MkdirAll(dir, 0o755)
	path := filepath.Join(dir, sanitize(name)+".txt")
	os.WriteFile(path, []byte(text+"\n\n--- solver output ---\n"+solverOut+"\n"), 0o644)
	return path
}

// recheckExcept re-checks obligation o under the negation of the known finding's input class.
func recheckExcept(res *UnitResult, o *Obligation, k KnownFinding, timeout time.Duration) (bool, string) {
	if k.Except == "" {
		return true, ""
	}
	u := res.unit
	e, err := parseSpecExpr(k.Except)
	if err != nil {
		return false, "cannot parse except: " + err.Error()
	}
	entry := &state{reach: "true", mem: u.entryMem.clone()}
	env := u.funcEnv(u.root, u.rootFrame.params, nil, entry, entry)
	var term string
	func() {
		defer func() {
			if r := recover(); r != nil {
				err = fmt.Errorf("%v", r)
			}
		}()
		term = env.evalBool(e)
	}()
	if err != nil {
		return false, "cannot evaluate except: " + err.Error()
	}
	script := u.script(o) + fmt.Sprintf("(assert (not %s))\n", term)
	r := solve(script, nil, timeout, 1)
	if r.Verdict == "unsat" {
		return true, ""
	}
	return false, "obligation also fails outside the recorded input class (" + r.Verdict + ")"
}

// rootPreconditions lists the written preconditions of every unit of the check: they are assumed when the unit is
// verified; call sites inside verified units check them (obligations "pre:"), call sites in code that is not under
// contract (goroutine bodies, handlers dispatched through interfaces, users of the library) do not.
func rootPreconditions(db *ContractDB, roots map[string]bool) []string {
	var keys []string
	for k := range roots {
		keys = append(keys, k)
	}
	sort.Strings(keys)
	var out []string
	for _, k := range keys {
		ct := db.forFunc(strings.TrimSuffix(k, "!safety"))
		if ct == nil {
			continue
		}
		for _, c := range ct.Requires {
			kind := "precondition"
			if c.Kind == "domain" {
				kind = "functional domain (not required of callers)"
			}
			out = append(out, fmt.Sprintf("%s of %s assumed in its unit, checked only at call sites inside verified units: %s: %s", kind, k, c.Label, c.Src))
		}
	}
	return out
}
