package main

// Goal-directed ground instantiation.
//
// The SMT solvers' own quantifier instantiation (e-matching, MBQI, CEGQI) is unreliable on address arithmetic such as
// (select M (+ base (* q 2) 1)). When a query comes back undecided, this pre-processor rewrites it into an
// equisatisfiable-or-weaker query that carries explicit ground instances:
//
//   1. quantifier-carrying macro applications (non-recursive spec functions) are expanded;
//   2. existentials in positive context (outside every universal) are replaced by fresh constants - in particular the
//      negated goal "not (forall q. P q)" becomes "not (P sk)";
//   3. every universal in positive context is instantiated at the fresh constants, their neighbours (+1, -1), its own
//      bounds, and the loop-carried integer variables; address-quantified axioms are instantiated at the index terms of
//      the selects found in the goal and in the instances (linear index patterns are solved for the bound variable).
//
// Each step only replaces an assertion by a consequence of it (or adds consequences), or names a witness of an
// existential; "unsat" of the result therefore implies "unsat" of the original query. The original quantified
// assertions are kept.

import (
	"fmt"
	"os"
	"sort"
	"strings"
)

type sx struct {
	atom string
	list []*sx
}

func (t *sx) isAtom() bool { return t.list == nil && t.atom != "" }

func (t *sx) String() string {
	var b strings.Builder
	t.write(&b)
	return b.String()
}

func (t *sx) write(b *strings.Builder) {
	if t.list == nil {
		b.WriteString(t.atom)
		return
	}
	b.WriteByte('(')
	for i, c := range t.list {
		if i > 0 {
			b.WriteByte(' ')
		}
		c.write(b)
	}
	b.WriteByte(')')
}

func parseSxAll(s string) ([]*sx, error) {
	var out []*sx
	i := 0
	var parse func() (*sx, error)
	skip := func() {
		for i < len(s) {
			c := s[i]
			if c == ' ' || c == '\n' || c == '\t' || c == '\r' {
				i++
			} else if c == ';' {
				for i < len(s) && s[i] != '\n' {
					i++
				}
			} else {
				return
			}
		}
	}
	parse = func() (*sx, error) {
		skip()
		if i >= len(s) {
			return nil, fmt.Errorf("eof")
		}
		if s[i] == '(' {
			i++
			n := &sx{list: []*sx{}}
			for {
				skip()
				if i >= len(s) {
					return nil, fmt.Errorf("unbalanced")
				}
				if s[i] == ')' {
					i++
					return n, nil
				}
				c, err := parse()
				if err != nil {
					return nil, err
				}
				n.list = append(n.list, c)
			}
		}
		if s[i] == ')' {
			return nil, fmt.Errorf("unexpected )")
		}
		j := i
		if s[i] == '|' {
			k := strings.IndexByte(s[i+1:], '|')
			if k < 0 {
				return nil, fmt.Errorf("unterminated symbol")
			}
			j = i + k + 2
		} else if s[i] == '"' {
			j = i + 1
			for j < len(s) && s[j] != '"' {
				j++
			}
			j++
		} else {
			for j < len(s) && !strings.ContainsRune(" \n\t\r()", rune(s[j])) {
				j++
			}
		}
		a := &sx{atom: s[i:j]}
		i = j
		return a, nil
	}
	for {
		skip()
		if i >= len(s) {
			return out, nil
		}
		t, err := parse()
		if err != nil {
			return nil, err
		}
		out = append(out, t)
	}
}

func (t *sx) head() string {
	if t.list != nil && len(t.list) > 0 && t.list[0].isAtom() {
		return t.list[0].atom
	}
	return ""
}

func (t *sx) hasQuant() bool {
	if t.list == nil {
		return false
	}
	if h := t.head(); h == "forall" || h == "exists" {
		return true
	}
	for _, c := range t.list {
		if c.hasQuant() {
			return true
		}
	}
	return false
}

// subst replaces free occurrences of the atoms in m (binders shadow).
func (t *sx) subst(m map[string]*sx) *sx {
	if len(m) == 0 {
		return t
	}
	if t.list == nil {
		if r, ok := m[t.atom]; ok {
			return r
		}
		return t
	}
	if h := t.head(); (h == "forall" || h == "exists") && len(t.list) == 3 {
		m2 := m
		for _, b := range t.list[1].list {
			if len(b.list) == 2 {
				if _, ok := m[b.list[0].atom]; ok {
					if len(m2) == len(m) {
						m2 = map[string]*sx{}
						for k, v := range m {
							m2[k] = v
						}
					}
					delete(m2, b.list[0].atom)
				}
			}
		}
		return &sx{list: []*sx{t.list[0], t.list[1], t.list[2].subst(m2)}}
	}
	n := &sx{list: make([]*sx, len(t.list))}
	changed := false
	for i, c := range t.list {
		n.list[i] = c.subst(m)
		if n.list[i] != c {
			changed = true
		}
	}
	if !changed {
		return t
	}
	return n
}

func (t *sx) mentions(a string) bool {
	if t.list == nil {
		return t.atom == a
	}
	for _, c := range t.list {
		if c.mentions(a) {
			return true
		}
	}
	return false
}

type gmacro struct {
	params []string
	body   *sx
}

// A ground "trigger term" found in the goal's cone: a select or an application of an uninterpreted function.
type gterm struct {
	round int             // instantiation round in which the term is offered as a candidate (frontier)
	arr   string          // select: the array argument as written
	fn    string          // "select" or the function symbol
	roots map[string]bool // select: root arrays of the array argument
	droots map[string]bool // select: root arrays reached through definitions, stores and ites only
	depth int             // select: nesting depth of the array argument
	args  []*sx           // select: [index]; application: arguments
	aux   bool            // application found in a ground assumption (not in the goal's cone): offered to multi-pattern matching only
}

type ginstCtx struct {
	macros   map[string]*gmacro
	defs     map[string]*sx  // 0-ary define-funs
	ufs      map[string]bool // declared functions of arity > 0
	nfresh   int
	decls    []string
	skBySort map[string][]string
	inGoal   bool
	bareOnly bool
	skOnly   bool // first pass of a round: only instances at named witnesses
	noParents bool // arrayRoots: follow definitions, stores and ites only
	level    int
	round    int // current instantiation round; terms found now are offered in the next one
	stamp    int
	parents  map[string][]string // declared array -> arrays its defining (copy / frame) axiom reads
	gterms   []*gterm
	gseen    map[string]bool
	defSeen  map[string]bool
	insts    []*sx
	instSeen map[string]bool
	budget   int
}

func (g *ginstCtx) fresh(prefix string) string {
	g.nfresh++
	return fmt.Sprintf("gi.%s!%d", prefix, g.nfresh)
}

// expand replaces applications of quantifier-carrying macros by their bodies (binders renamed apart).
func (g *ginstCtx) expand(t *sx, depth int) *sx {
	if t.list == nil || depth > 6 {
		return t
	}
	n := &sx{list: make([]*sx, len(t.list))}
	for i, c := range t.list {
		n.list[i] = g.expand(c, depth)
	}
	if m, ok := g.macros[n.head()]; ok && len(n.list) == len(m.params)+1 {
		sub := map[string]*sx{}
		for i, p := range m.params {
			sub[p] = n.list[i+1]
		}
		body := g.renameBinders(m.body)
		return g.expand(body.subst(sub), depth+1)
	}
	return n
}

func (g *ginstCtx) renameBinders(t *sx) *sx {
	if t.list == nil {
		return t
	}
	if h := t.head(); (h == "forall" || h == "exists") && len(t.list) == 3 {
		sub := map[string]*sx{}
		bl := &sx{list: []*sx{}}
		for _, b := range t.list[1].list {
			nn := g.fresh("b")
			sub[b.list[0].atom] = &sx{atom: nn}
			bl.list = append(bl.list, &sx{list: []*sx{{atom: nn}, b.list[1]}})
		}
		return &sx{list: []*sx{t.list[0], bl, g.renameBinders(t.list[2].subst(sub))}}
	}
	n := &sx{list: make([]*sx, len(t.list))}
	for i, c := range t.list {
		n.list[i] = g.renameBinders(c)
	}
	return n
}

func stripPattern(t *sx) *sx {
	if t.head() == "!" && len(t.list) >= 2 {
		return t.list[1]
	}
	return t
}

// skolemize names the witnesses of existentials-in-context that are not below a universal-in-context.
func (g *ginstCtx) skolemize(t *sx, pos bool) *sx {
	if t.list == nil {
		return t
	}
	switch t.head() {
	case "not":
		if len(t.list) == 2 {
			return &sx{list: []*sx{t.list[0], g.skolemize(t.list[1], !pos)}}
		}
	case "and", "or":
		n := &sx{list: []*sx{t.list[0]}}
		for _, c := range t.list[1:] {
			n.list = append(n.list, g.skolemize(c, pos))
		}
		return n
	case "=>":
		n := &sx{list: []*sx{t.list[0]}}
		for i, c := range t.list[1:] {
			if i == len(t.list)-2 {
				n.list = append(n.list, g.skolemize(c, pos))
			} else {
				n.list = append(n.list, g.skolemize(c, !pos))
			}
		}
		return n
	case "ite":
		if len(t.list) == 4 {
			return &sx{list: []*sx{t.list[0], t.list[1], g.skolemize(t.list[2], pos), g.skolemize(t.list[3], pos)}}
		}
	case "forall", "exists":
		if len(t.list) != 3 {
			return t
		}
		existential := (t.head() == "exists") == pos
		if !existential {
			return t
		}
		sub := map[string]*sx{}
		for _, b := range t.list[1].list {
			c := g.fresh("sk")
			g.decls = append(g.decls, fmt.Sprintf("(declare-fun %s () %s)", c, b.list[1].String()))
			g.skBySort[b.list[1].String()] = append(g.skBySort[b.list[1].String()], c)
			sub[b.list[0].atom] = &sx{atom: c}
		}
		return g.skolemize(stripPattern(t.list[2]).subst(sub), pos)
	}
	return t
}

// universals returns the paths of universals-in-context not below another universal.
type upath []int

func (g *ginstCtx) universals(t *sx, pos bool, path upath, out *[]upath) {
	if t.list == nil {
		return
	}
	at := func(i int) upath { return append(append(upath{}, path...), i) }
	switch t.head() {
	case "not":
		if len(t.list) == 2 {
			g.universals(t.list[1], !pos, at(1), out)
		}
	case "and", "or":
		for i := 1; i < len(t.list); i++ {
			g.universals(t.list[i], pos, at(i), out)
		}
	case "=>":
		for i := 1; i < len(t.list); i++ {
			p := pos
			if i != len(t.list)-1 {
				p = !pos
			}
			g.universals(t.list[i], p, at(i), out)
		}
	case "ite":
		if len(t.list) == 4 {
			g.universals(t.list[2], pos, at(2), out)
			g.universals(t.list[3], pos, at(3), out)
		}
	case "forall", "exists":
		if len(t.list) == 3 && (t.head() == "forall") == pos {
			*out = append(*out, append(upath{}, path...))
		}
	}
}

func replaceAt(t *sx, p upath, r *sx) *sx {
	if len(p) == 0 {
		return r
	}
	n := &sx{list: append([]*sx{}, t.list...)}
	n.list[p[0]] = replaceAt(t.list[p[0]], p[1:], r)
	return n
}

func nodeAt(t *sx, p upath) *sx {
	for _, i := range p {
		t = t.list[i]
	}
	return t
}

// arrayRoots: the declared arrays an array-valued term is built from through store / ite / definitions.
func (g *ginstCtx) arrayRoots(t *sx, depth int, out map[string]bool) (nest int) {
	if depth > 12 {
		return 0
	}
	if t.list == nil {
		if d, ok := g.defs[t.atom]; ok {
			return g.arrayRoots(d, depth+1, out)
		}
		if !out[t.atom] {
			out[t.atom] = true
			if !g.noParents {
				for _, p := range g.parents[t.atom] {
					g.arrayRoots(&sx{atom: p}, depth+1, out)
				}
			}
		}
		return 0
	}
	switch t.head() {
	case "store":
		return g.arrayRoots(t.list[1], depth+1, out)
	case "ite":
		if len(t.list) == 4 {
			n := g.arrayRoots(t.list[2], depth+1, out)
			if m := g.arrayRoots(t.list[3], depth+1, out); m > n {
				n = m
			}
			return n
		}
	case "select":
		if len(t.list) == 3 {
			return 1 + g.arrayRoots(t.list[1], depth+1, out)
		}
	}
	return 0
}

// resolve replaces a defined name by its (arithmetic) definition so that index patterns can be matched against it.
func (g *ginstCtx) resolve(t *sx) *sx {
	for d := 0; d < 4 && t.list == nil; d++ {
		def, ok := g.defs[t.atom]
		if !ok || (def.list != nil && def.head() != "+" && def.head() != "-" && def.head() != "*") {
			break
		}
		t = def
	}
	return t
}

// collect records the ground trigger terms of t and of the definitions it mentions.
func (g *ginstCtx) collect(t *sx) {
	if t.list == nil {
		if d, ok := g.defs[t.atom]; ok && !g.defSeen[t.atom] {
			g.defSeen[t.atom] = true
			g.collect(d)
		}
		return
	}
	if len(t.list) == 0 {
		return
	}
	if h := t.head(); h == "forall" || h == "exists" {
		return
	}
	if t.head() == "select" && len(t.list) == 3 {
		key := t.String()
		if !g.gseen[key] && len(g.gterms) < 4000 {
			g.gseen[key] = true
			gt := &gterm{round: g.stamp, fn: "select", arr: t.list[1].String(), roots: map[string]bool{}, args: []*sx{g.resolve(t.list[2])}}
			gt.depth = g.arrayRoots(t.list[1], 0, gt.roots)
			gt.droots = map[string]bool{}
			g.noParents = true
			g.arrayRoots(t.list[1], 0, gt.droots)
			g.noParents = false
			g.gterms = append(g.gterms, gt)
		}
	} else if g.ufs[t.head()] {
		key := t.String()
		if !g.gseen[key] && len(g.gterms) < 4000 {
			g.gseen[key] = true
			var as []*sx
			for _, a := range t.list[1:] {
				as = append(as, g.resolve(a))
			}
			g.gterms = append(g.gterms, &gterm{round: g.stamp, fn: t.head(), args: as})
		}
	}
	for _, c := range t.list {
		g.collect(c)
	}
}

// linearIn decomposes idx as coef*x + rest when x occurs once through + and * by a positive literal.
func linearIn(idx *sx, x string) (coef int64, rest []string, ok bool) {
	if idx.list == nil {
		if idx.atom == x {
			return 1, nil, true
		}
		return 0, []string{idx.atom}, true
	}
	switch idx.head() {
	case "+":
		var c int64
		for _, a := range idx.list[1:] {
			ca, ra, oka := linearIn(a, x)
			if !oka {
				return 0, nil, false
			}
			if ca != 0 {
				if c != 0 {
					return 0, nil, false
				}
				c = ca
			}
			rest = append(rest, ra...)
		}
		return c, rest, true
	case "*":
		if len(idx.list) == 3 {
			a, b := idx.list[1], idx.list[2]
			if a.isAtom() && a.atom == x {
				a, b = b, a
			}
			if b.isAtom() && b.atom == x && a.isAtom() {
				var n int64
				if _, err := fmt.Sscanf(a.atom, "%d", &n); err == nil && n > 0 {
					return n, nil, true
				}
			}
		}
	}
	if idx.mentions(x) {
		return 0, nil, false
	}
	return 0, []string{idx.String()}, true
}

// solveFor returns a term v such that pattern[x:=v] = ground (as integers), when the pattern is linear in x.
// Any value is a sound instantiation; an inexact division only makes the instance useless.
func solveFor(pattern *sx, x string, ground *sx) (string, bool) {
	v, _, ok := solveForX(pattern, x, ground)
	return v, ok
}

// solveForX also reports whether the pattern's other summands cancelled syntactically (an exact match).
func solveForX(pattern *sx, x string, ground *sx) (string, bool, bool) {
	if pattern.isAtom() && pattern.atom == x {
		return ground.String(), true, true
	}
	coef, rest, ok := linearIn(pattern, x)
	if !ok || coef == 0 {
		return "", false, false
	}
	// cancel syntactically equal summands of ground against rest
	gs := flattenSum(ground)
	var restLeft []string
	for _, r := range rest {
		found := false
		for i, s := range gs {
			if s == r {
				gs = append(gs[:i], gs[i+1:]...)
				found = true
				break
			}
		}
		if !found {
			restLeft = append(restLeft, r)
		}
	}
	v := sumOf(gs)
	if len(restLeft) > 0 {
		v = "(- " + v + " " + strings.Join(restLeft, " ") + ")"
	}
	exact := len(restLeft) == 0
	if coef != 1 {
		// the ground index should have the shape base' + c*t (+ offset); when base' is not syntactically the pattern's
		// base the match is a guess - a wrong guess only yields a useless instance
		cs := fmt.Sprint(coef)
		for _, s := range gs {
			if t, err := parseSxAll(s); err == nil && len(t) == 1 && t[0].head() == "*" && len(t[0].list) == 3 {
				a, b := t[0].list[1], t[0].list[2]
				if a.isAtom() && a.atom == cs {
					return b.String(), exact && len(gs) == 1, true
				}
				if b.isAtom() && b.atom == cs {
					return a.String(), exact && len(gs) == 1, true
				}
			}
		}
		if exact && len(gs) == 0 {
			return "0", true, true
		}
		return "", false, false
	}
	return v, exact, true
}

func flattenSum(t *sx) []string {
	if t.head() == "+" {
		var out []string
		for _, a := range t.list[1:] {
			out = append(out, flattenSum(a)...)
		}
		return out
	}
	return []string{t.String()}
}

func sumOf(xs []string) string {
	switch len(xs) {
	case 0:
		return "0"
	case 1:
		return xs[0]
	}
	return "(+ " + strings.Join(xs, " ") + ")"
}

// emptyRange recognises guards such as (and (<= 0 x) (< x 0)) whose range is syntactically empty.
func emptyRange(body *sx, binders []*sx) bool {
	if len(binders) != 1 || body.head() != "=>" || len(body.list) < 3 {
		return false
	}
	x := binders[0].list[0].atom
	c := body.list[1]
	if c.head() != "and" {
		return false
	}
	lo, hi := "", ""
	for _, a := range c.list[1:] {
		if len(a.list) == 3 && a.head() == "<=" && a.list[2].isAtom() && a.list[2].atom == x {
			lo = a.list[1].String()
		}
		if len(a.list) == 3 && a.head() == "<" && a.list[1].isAtom() && a.list[1].atom == x {
			hi = a.list[2].String()
		}
	}
	l, ok1 := litInt(lo)
	h, ok2 := litInt(hi)
	return ok1 && ok2 && h.Cmp(l) <= 0
}

// upperBounds: hi-1 for guards (and ... (< x hi) ...), both in implications and in (negated) conjunctions.
func upperBounds(body *sx, x string) []string {
	var out []string
	var conj []*sx
	switch {
	case body.head() == "=>" && len(body.list) >= 3:
		conj = []*sx{body.list[1]}
	case body.head() == "and":
		conj = body.list[1:]
	}
	for len(conj) > 0 {
		a := conj[0]
		conj = conj[1:]
		if a.head() == "and" {
			conj = append(conj, a.list[1:]...)
			continue
		}
		if len(a.list) == 3 && a.head() == "<" && a.list[1].isAtom() && a.list[1].atom == x && !a.list[2].mentions(x) {
			out = append(out, "(- "+a.list[2].String()+" 1)")
		}
	}
	return out
}

// triggers of a quantifier body for bound variable x: selects / function applications with an argument linear in x
// and no other bound variable.
type trig struct {
	arr   string
	fn    string
	droots map[string]bool
	roots map[string]bool
	depth int
	argi  int
	pat   *sx
}

func (g *ginstCtx) triggersOf(body *sx, x string, others map[string]bool) []trig {
	var out []trig
	mentionsOther := func(t *sx) bool {
		for o := range others {
			if t.mentions(o) {
				return true
			}
		}
		return false
	}
	var walk func(t *sx)
	walk = func(t *sx) {
		if t.list == nil || len(t.list) == 0 {
			return
		}
		if t.head() == "select" && len(t.list) == 3 && t.list[2].mentions(x) && !mentionsOther(t.list[2]) && !t.list[1].mentions(x) && !mentionsOther(t.list[1]) {
			if c, _, ok := linearIn(t.list[2], x); ok && c != 0 {
				tr := trig{fn: "select", arr: t.list[1].String(), roots: map[string]bool{}, pat: t.list[2]}
				tr.depth = g.arrayRoots(t.list[1], 0, tr.roots)
				tr.droots = map[string]bool{}
				g.noParents = true
				g.arrayRoots(t.list[1], 0, tr.droots)
				g.noParents = false
				out = append(out, tr)
			}
		} else if g.ufs[t.head()] {
			for i, a := range t.list[1:] {
				if a.mentions(x) && !mentionsOther(a) {
					if c, _, ok := linearIn(a, x); ok && c != 0 {
						out = append(out, trig{fn: t.head(), argi: i, pat: a})
					}
				}
			}
		}
		for _, c := range t.list {
			walk(c)
		}
	}
	walk(body)
	return out
}

func (g *ginstCtx) candidates(body *sx, x string, others map[string]bool) []string {
	seen := map[string]bool{}
	var sameC, exactC, looseC []string
	for _, tr := range g.triggersOf(body, x, others) {
		for _, gt := range g.gterms {
			if gt.fn != tr.fn || gt.round != g.round || gt.aux {
				continue
			}
			var ground *sx
			same := false
			if tr.fn == "select" {
				if gt.depth != tr.depth {
					continue
				}
				same = gt.arr == tr.arr
				hit := same
				if !hit {
					for r := range tr.roots {
						if gt.roots[r] {
							hit = true
							break
						}
					}
				}
				if !hit {
					continue
				}
				if g.skOnly && !same {
					// witness pass: only the axioms of the array the witness is read from
					direct := false
					for r := range tr.droots {
						if gt.droots[r] {
							direct = true
							break
						}
					}
					if !direct {
						continue
					}
				}
				ground = gt.args[0]
			} else {
				if tr.argi >= len(gt.args) {
					continue
				}
				ground = gt.args[tr.argi]
			}
			if g.bareOnly && !(tr.pat.isAtom() && tr.pat.atom == x) {
				continue
			}
			v, exact, ok := solveForX(tr.pat, x, ground)
			if !ok {
				continue
			}
			if !exact && !g.bareOnly && g.level >= 1 {
				// base' + w against base + x with different bases (the same slice before and after a reallocation,
				// or seen through a copy): the summands of the ground index are index guesses
				if c, _, okl := linearIn(tr.pat, x); okl && c == 1 {
					for _, sm := range flattenSum(ground) {
						if !seen[sm] && len(sm) < 80 && g.ufDepth(sm) <= 1 {
							seen[sm] = true
							looseC = append(looseC, sm)
						}
					}
				}
			}
			if seen[v] || g.ufDepth(v) > 1 {
				continue
			}
			seen[v] = true
			switch {
			case exact && same:
				sameC = append(sameC, v)
			case exact:
				exactC = append(exactC, v)
			default:
				looseC = append(looseC, v)
			}
		}
	}
	byLen := func(l []string) {
		sort.Slice(l, func(i, j int) bool {
			if len(l[i]) != len(l[j]) {
				return len(l[i]) < len(l[j])
			}
			return l[i] < l[j]
		})
	}
	byLen(sameC)
	byLen(exactC)
	byLen(looseC)
	if len(sameC) > 12 {
		sameC = sameC[:12]
	}
	if len(exactC) > 8 {
		exactC = exactC[:8]
	}
	if len(looseC) > 6 {
		looseC = looseC[:6]
	}
	return append(append(sameC, exactC...), looseC...)
}

// ufDepth counts applications of uninterpreted functions in a candidate term (chains such as f(g(f(x))) are the
// signature of a matching loop between mutually inverse axioms).
func (g *ginstCtx) ufDepth(v string) int {
	n := 0
	for f := range g.ufs {
		n += strings.Count(v, "("+f+" ")
	}
	return n
}

// instantiate adds the instances of assertion t (already expanded and skolemized) that the current ground terms trigger.
func (g *ginstCtx) instantiate(t *sx, depth int) {
	if depth > 2 || g.budget <= 0 {
		return
	}
	var ups []upath
	g.universals(t, true, nil, &ups)
	for _, p := range ups {
		q := nodeAt(t, p)
		binders := q.list[1].list
		body := stripPattern(q.list[2])
		if emptyRange(body, binders) {
			continue
		}
		if subs, ok := g.tupleMatches(q); ok {
			for _, sub := range subs {
				inst := replaceAt(t, p, body.subst(sub))
				key := inst.String()
				if g.instSeen[key] {
					continue
				}
				g.instSeen[key] = true
				inst = g.skolemize(inst, true)
				g.insts = append(g.insts, inst)
				g.budget--
				g.collect(inst)
				if g.budget <= 0 {
					return
				}
			}
			continue
		}
		var choices [][]string
		for i, b := range binders {
			others := map[string]bool{}
			for j, o := range binders {
				if j != i {
					others[o.list[0].atom] = true
				}
			}
			var cs []string
			if b.list[1].String() == "Int" {
				cs = g.candidates(body, b.list[0].atom, others)
			} else {
				// other sorts: only where the bound variable itself is the index or argument (no arithmetic to undo)
				g.bareOnly = true
				cs = g.candidates(body, b.list[0].atom, others)
				g.bareOnly = false
			}
			if srt := b.list[1].String(); strings.HasPrefix(srt, "(_ BitVec") {
				// bit-vector binders have no arithmetic patterns: the named witnesses of that sort
				cs = append(cs, g.skBySort[srt]...)
			} else if g.inGoal && len(binders) == 1 {
				// the goal's own universals (witness positions): also the last index of the range
				cs = append(cs, upperBounds(body, b.list[0].atom)...)
			}
			// witnesses first: candidates built from named witnesses (and, for the goal, the end of the range) are the
			// ones a proof by cases needs; plain program terms follow
			var first, rest []string
			for _, c := range cs {
				if strings.Contains(c, "gi.sk!") {
					first = append(first, c)
				} else {
					rest = append(rest, c)
				}
			}
			if g.inGoal && len(binders) == 1 && b.list[1].String() == "Int" {
				ub := upperBounds(body, b.list[0].atom)
				var rest2 []string
				for _, c := range rest {
					isUB := false
					for _, u := range ub {
						if u == c {
							isUB = true
						}
					}
					if !isUB {
						rest2 = append(rest2, c)
					}
				}
				first = append(first, ub...)
				rest = rest2
			}
			cs = append(first, rest...)
			if g.skOnly {
				cs = first
			}
			lim := 16
			if len(binders) > 1 || depth > 0 {
				lim = 4
			}
			if len(cs) > lim {
				cs = cs[:lim]
			}
			choices = append(choices, cs)
		}
		total := 1
		for _, c := range choices {
			total *= len(c)
		}
		if total == 0 {
			continue
		}
		idx := make([]int, len(choices))
		for {
			sub := map[string]*sx{}
			for i, b := range binders {
				ts, _ := parseSxAll(choices[i][idx[i]])
				sub[b.list[0].atom] = ts[0]
			}
			inst := replaceAt(t, p, body.subst(sub))
			key := inst.String()
			if !g.instSeen[key] {
				g.instSeen[key] = true
				inst = g.skolemize(inst, true)
				g.insts = append(g.insts, inst)
				g.budget--
				g.collect(inst)
				if inst.hasQuant() {
					g.instantiate(inst, depth+1)
				}
			}
			if g.budget <= 0 {
				return
			}
			k := 0
			for k < len(idx) {
				idx[k]++
				if idx[k] < len(choices[k]) {
					break
				}
				idx[k] = 0
				k++
			}
			if k == len(idx) {
				break
			}
		}
	}
}

// tupleMatches: e-matching for an axiom with a multi-pattern whose members are applications of declared functions to bare
// bound variables (the frame axioms of specification functions: f(fuel, args, H1) and f(fuel', args, H2)). Each pattern
// member is matched against a ground application; shared variables must get syntactically equal (resolved) arguments.
// At least one of the matched terms is new in this round, and the members are matched to different terms.
func (g *ginstCtx) tupleMatches(q *sx) ([]map[string]*sx, bool) {
	if g.level < 1 || len(q.list) != 3 || q.list[2].head() != "!" {
		return nil, false
	}
	ann := q.list[2].list
	var pats []*sx
	for i := 2; i+1 < len(ann); i += 2 {
		if ann[i].atom == ":pattern" && ann[i+1].list != nil {
			if pats != nil {
				return nil, false // several alternative patterns: not handled here
			}
			pats = ann[i+1].list
		}
	}
	if len(pats) < 2 {
		return nil, false
	}
	isBinder := map[string]bool{}
	for _, b := range q.list[1].list {
		isBinder[b.list[0].atom] = true
	}
	covered := map[string]bool{}
	for _, pt := range pats {
		if pt.list == nil || len(pt.list) < 2 || !g.ufs[pt.head()] {
			return nil, false
		}
		for _, a := range pt.list[1:] {
			if !a.isAtom() || !isBinder[a.atom] {
				return nil, false
			}
			covered[a.atom] = true
		}
	}
	if len(covered) != len(isBinder) {
		return nil, false
	}
	var out []map[string]*sx
	var rec func(k int, sub map[string]*sx, used []int, fresh bool)
	rec = func(k int, sub map[string]*sx, used []int, fresh bool) {
		if len(out) >= 12 {
			return
		}
		if k == len(pats) {
			if !fresh {
				return
			}
			for i := 1; i < len(used); i++ {
				if used[i] != used[0] {
					cp := map[string]*sx{}
					for n, v := range sub {
						cp[n] = v
					}
					out = append(out, cp)
					return
				}
			}
			return
		}
		pt := pats[k]
		for gi, gt := range g.gterms {
			if gt.fn != pt.head() || len(gt.args) != len(pt.list)-1 || gt.round > g.round {
				continue
			}
			var added []string
			ok := true
			for i, a := range pt.list[1:] {
				if prev, bound := sub[a.atom]; bound {
					if prev.String() != gt.args[i].String() {
						ok = false
						break
					}
				} else {
					sub[a.atom] = gt.args[i]
					added = append(added, a.atom)
				}
			}
			if ok {
				rec(k+1, sub, append(used, gi), fresh || gt.round == g.round)
			}
			for _, n := range added {
				delete(sub, n)
			}
		}
	}
	rec(0, map[string]*sx{}, nil, false)
	return out, true
}

// collectAux offers the applications of specification functions that occur in ground assumptions to multi-pattern
// matching (for instance a postcondition "r == f(d, n)" established in an earlier memory state).
func (g *ginstCtx) collectAux(t *sx) {
	if t.list == nil || len(t.list) == 0 {
		return
	}
	if g.ufs[t.head()] && strings.HasPrefix(t.head(), "|spec:") {
		key := t.String()
		if !g.gseen[key] && len(g.gterms) < 4000 {
			g.gseen[key] = true
			var as []*sx
			for _, a := range t.list[1:] {
				as = append(as, g.resolve(a))
			}
			g.gterms = append(g.gterms, &gterm{round: g.stamp, fn: t.head(), args: as, aux: true})
		}
	}
	for _, c := range t.list {
		g.collectAux(c)
	}
}

// ginstScript returns the instantiated script, or "" when there is nothing to instantiate. With groundOnly every
// assertion that still contains a quantifier is dropped (a further weakening): the result is quantifier-free.
func ginstScript(script string, groundOnly bool) string { return ginstScriptOpt(script, groundOnly, false) }

// ginstScriptOpt: with ufBridge the conversions bv2nat / int2bv are replaced by uninterpreted functions (per width),
// constrained only by the bridge lemmas - another weakening, which keeps the solvers out of their slow conversion theory.
func ginstScriptOpt(script string, groundOnly, ufBridge bool) string {
	return ginstScriptLevel(script, groundOnly, ufBridge, 1)
}

// ginstScriptLevel: level 0 ("light") matches arrays by identity or direct definition only, makes no index guesses across
// different bases and keeps the instance budget small - the result is tiny and decides most goals at once; level 1
// ("heavy") follows copy/frame axioms between array versions and guesses indices.
func ginstScriptLevel(script string, groundOnly, ufBridge bool, level int) string {
	cmds, err := parseSxAll(script)
	if err != nil || len(cmds) == 0 {
		return ""
	}
	g := &ginstCtx{level: level, macros: map[string]*gmacro{}, defs: map[string]*sx{}, ufs: map[string]bool{}, gseen: map[string]bool{},
		defSeen: map[string]bool{}, instSeen: map[string]bool{}, budget: 240, skBySort: map[string][]string{}}
	goalIdx := -1
	br := &bridgeCtx{sorts: map[string]*sx{}, seen: map[string]bool{}}
	for i, c := range cmds {
		switch c.head() {
		case "define-fun":
			if len(c.list) == 5 {
				if len(c.list[2].list) == 0 {
					br.sorts[c.list[1].atom] = c.list[3]
					g.defs[c.list[1].atom] = c.list[4]
				} else if c.list[4].hasQuant() {
					m := &gmacro{body: c.list[4]}
					for _, p := range c.list[2].list {
						m.params = append(m.params, p.list[0].atom)
					}
					g.macros[c.list[1].atom] = m
				}
			}
		case "declare-fun":
			if len(c.list) == 4 {
				if len(c.list[2].list) == 0 {
					br.sorts[c.list[1].atom] = c.list[3]
				} else {
					g.ufs[c.list[1].atom] = true
				}
			}
		case "assert":
			goalIdx = i
		}
	}
	if goalIdx < 0 {
		return ""
	}
	// arrays introduced by an axiom "forall a. select X a = ... select Y ..." descend from the arrays that axiom reads
	g.parents = map[string][]string{}
	for _, c := range cmds {
		if c.head() != "assert" || len(c.list) != 2 || c.list[1].head() != "forall" || len(c.list[1].list) != 3 {
			continue
		}
		q := c.list[1]
		if len(q.list[1].list) != 1 {
			continue
		}
		x := q.list[1].list[0].list[0].atom
		var arrs []string
		seenA := map[string]bool{}
		var walk func(t *sx)
		walk = func(t *sx) {
			if t.list == nil {
				return
			}
			if t.head() == "select" && len(t.list) == 3 && t.list[1].isAtom() && t.list[2].mentions(x) {
				if srt, ok := br.sorts[t.list[1].atom]; ok && srt.head() == "Array" && !seenA[t.list[1].atom] {
					seenA[t.list[1].atom] = true
					if _, isDef := g.defs[t.list[1].atom]; !isDef {
						arrs = append(arrs, t.list[1].atom)
					} else if len(arrs) > 0 {
						rs := map[string]bool{}
						g.arrayRoots(t.list[1], 0, rs)
						for r := range rs {
							if !seenA[r] {
								seenA[r] = true
								arrs = append(arrs, r)
							}
						}
					}
				}
			}
			for _, cc := range t.list {
				walk(cc)
			}
		}
		walk(stripPattern(q.list[2]))
		if len(arrs) >= 2 && g.level >= 1 {
			// the first array read at the bound address is the one being defined
			g.parents[arrs[0]] = append(g.parents[arrs[0]], arrs[1:]...)
		}
	}
	// pass 1: expand macros and name witnesses
	terms := map[int]*sx{}
	anyQuant := false
	for i, c := range cmds {
		if c.head() != "assert" || len(c.list) != 2 {
			continue
		}
		t := c.list[1]
		if !t.hasQuant() && !g.usesMacro(t) {
			continue
		}
		anyQuant = true
		t = g.expand(t, 0)
		t = g.skolemize(t, true)
		terms[i] = t
	}
	if !anyQuant {
		return ""
	}
	// the goal's ground terms (through the definitions it mentions) drive the instantiation
	if t, ok := terms[goalIdx]; ok {
		g.collect(t)
	} else {
		g.collect(cmds[goalIdx].list[1])
	}
	if g.level >= 1 {
		for i, c := range cmds {
			if _, q := terms[i]; !q && i != goalIdx && c.head() == "assert" && len(c.list) == 2 {
				g.collectAux(c.list[1])
			}
		}
	}
	order := []int{}
	for i := range cmds {
		if t, ok := terms[i]; ok && t.hasQuant() {
			order = append(order, i)
		}
	}
	for round := 0; round < 6; round++ {
		before := len(g.insts)
		g.round, g.stamp = round, round+1
		g.budget = 110 // per round, so that later rounds (witnesses of instantiated existentials) always happen
		if g.level == 0 {
			g.budget = 40
		}
		passes := []bool{false}
		if g.level >= 1 && round >= 1 {
			// witnesses introduced by the previous round first (their instances are what a proof by cases is waiting
			// for), whatever the position of the assertion in the script
			passes = []bool{true, false}
		}
		for _, skPass := range passes {
		g.skOnly = skPass
		for _, i := range order {
			n0 := len(g.insts)
			g.inGoal = i == goalIdx
			saved := g.budget
			if g.budget > 14 {
				g.budget = 14 // per assertion and round
			}
			if g.level == 0 && g.budget > 6 {
				g.budget = 6
			}
			g.instantiate(terms[i], 0)
			g.budget = saved - (len(g.insts) - n0)
			g.inGoal = false
			if g.budget <= 0 {
				break
			}
			if os.Getenv("GINST_DEBUG") != "" && len(g.insts) > n0 {
				ts := terms[i].String()
				if len(ts) > 160 {
					ts = ts[:160]
				}
				fmt.Fprintf(os.Stderr, "ginst round %d: %d instances of %s\n", round, len(g.insts)-n0, ts)
			}
		}
		}
		g.skOnly = false
		if len(g.insts) == before {
			break
		}
	}
	if len(g.insts) == 0 && len(g.decls) == 0 {
		return ""
	}
	// bridge lemmas over the ground terms of the goal's cone and of the instances
	for _, d := range g.decls {
		if ts, err := parseSxAll(d); err == nil && len(ts) == 1 && len(ts[0].list) == 4 {
			br.sorts[ts[0].list[1].atom] = ts[0].list[3]
		}
	}
	br.conv = map[string]bool{}
	br.defs = g.defs
	for br.pass = 0; br.pass < 2; br.pass++ {
		var names []string
		for name := range g.defSeen {
			names = append(names, name)
		}
		sort.Strings(names)
		br.all = true
		for _, name := range names {
			br.walk(g.defs[name])
		}
		if t, ok := terms[goalIdx]; ok {
			br.walk(t)
		} else {
			br.walk(cmds[goalIdx].list[1])
		}
		br.all = false
		for _, in := range g.insts {
			br.walk(in)
		}
	}
	var b strings.Builder
	for _, d := range g.decls {
		b.WriteString(d)
		b.WriteByte('\n')
	}
	ufDecl := map[string]string{}
	var conv func(t *sx) *sx
	conv = func(t *sx) *sx {
		if !ufBridge || t.list == nil || len(t.list) == 0 {
			return t
		}
		n := &sx{list: make([]*sx, len(t.list))}
		for i, c := range t.list {
			n.list[i] = conv(c)
		}
		if t.head() == "bv2nat" && len(t.list) == 2 {
			if w := br.width(t.list[1]); w > 0 {
				f := fmt.Sprintf("gi.nat%d", w)
				ufDecl[f] = fmt.Sprintf("(declare-fun %s ((_ BitVec %d)) Int)", f, w)
				return &sx{list: []*sx{{atom: f}, n.list[1]}}
			}
		}
		if h := t.list[0]; h.list != nil && len(h.list) == 3 && h.list[1].atom == "int2bv" && len(t.list) == 2 {
			var w int
			fmt.Sscanf(h.list[2].atom, "%d", &w)
			if w > 0 {
				f := fmt.Sprintf("gi.bv%d", w)
				ufDecl[f] = fmt.Sprintf("(declare-fun %s (Int) (_ BitVec %d))", f, w)
				return &sx{list: []*sx{{atom: f}, n.list[1]}}
			}
		}
		return n
	}
	var body strings.Builder
	for i, c := range cmds {
		if i == goalIdx {
			for _, in := range g.insts {
				if groundOnly && in.hasQuant() {
					continue
				}
				body.WriteString("(assert ")
				body.WriteString(conv(in).String())
				body.WriteString(")\n")
			}
			for _, l := range br.out {
				if ufBridge {
					if ts, err := parseSxAll(l); err == nil && len(ts) == 1 {
						l = conv(ts[0]).String()
					}
				}
				body.WriteString("(assert ")
				body.WriteString(l)
				body.WriteString(")\n")
			}
		}
		if t, ok := terms[i]; ok {
			if groundOnly && i != goalIdx && t.hasQuant() {
				continue
			}
			body.WriteString("(assert ")
			body.WriteString(conv(t).String())
			body.WriteString(")\n")
			continue
		}
		if groundOnly && c.head() == "assert" && c.hasQuant() {
			continue
		}
		body.WriteString(conv(c).String())
		body.WriteByte('\n')
	}
	var ufNames []string
	for f := range ufDecl {
		ufNames = append(ufNames, f)
	}
	sort.Strings(ufNames)
	for _, f := range ufNames {
		b.WriteString(ufDecl[f])
		b.WriteByte('\n')
	}
	b.WriteString(body.String())
	return b.String()
}

func (g *ginstCtx) usesMacro(t *sx) bool {
	if t.list == nil {
		return false
	}
	if _, ok := g.macros[t.head()]; ok {
		return true
	}
	for _, c := range t.list {
		if g.usesMacro(c) {
			return true
		}
	}
	return false
}

// ---------- bridge lemmas between bit-vectors and integers ----------
//
// Ground facts about bv2nat / int2bv / unsigned comparisons / modular addition that the solvers derive only slowly:
// each is a valid statement about the SMT-LIB functions, so adding it never changes satisfiability.

type bridgeCtx struct {
	sorts map[string]*sx // symbol -> sort (0-ary declarations and definitions)
	seen  map[string]bool
	out   []string
	conv  map[string]bool // bit-vector terms that are converted to or from integers somewhere (pass 1)
	defs  map[string]*sx
	pass  int
	all   bool // lemmas for every comparison / modular operation met (goal cone), not only the converted ones
}

func (b *bridgeCtx) markConv(t *sx) {
	for d := 0; d < 6 && t != nil; d++ {
		b.conv[t.String()] = true
		if t.list != nil {
			return
		}
		t = b.defs[t.atom]
	}
}

// relevant: the term, or an operand of it, takes part in an integer conversion.
func (b *bridgeCtx) relevant(ts ...*sx) bool {
	if b.all && len(b.conv) > 0 {
		return true
	}
	for _, t := range ts {
		if b.conv[t.String()] {
			return true
		}
		if h := t.head(); (h == "bvadd" || h == "bvsub") && len(t.list) == 3 {
			if b.conv[t.list[1].String()] || b.conv[t.list[2].String()] {
				return true
			}
		}
	}
	return false
}

func (b *bridgeCtx) width(t *sx) int {
	if t.list == nil {
		if s, ok := b.sorts[t.atom]; ok {
			return bvWidth(s.String())
		}
		if strings.HasPrefix(t.atom, "#x") {
			return 4 * (len(t.atom) - 2)
		}
		if strings.HasPrefix(t.atom, "#b") {
			return len(t.atom) - 2
		}
		return 0
	}
	if len(t.list) == 0 {
		return 0
	}
	h := t.list[0]
	if h.list != nil && len(h.list) >= 3 && h.list[0].atom == "_" {
		var a, c int
		fmt.Sscanf(h.list[2].atom, "%d", &a)
		switch h.list[1].atom {
		case "int2bv":
			return a
		case "extract":
			if len(h.list) == 4 {
				fmt.Sscanf(h.list[3].atom, "%d", &c)
				return a - c + 1
			}
		case "zero_extend", "sign_extend":
			if len(t.list) == 2 {
				if w := b.width(t.list[1]); w > 0 {
					return w + a
				}
			}
		}
		return 0
	}
	switch t.head() {
	case "_":
		if len(t.list) == 3 && strings.HasPrefix(t.list[1].atom, "bv") {
			var w int
			fmt.Sscanf(t.list[2].atom, "%d", &w)
			return w
		}
	case "bvadd", "bvsub", "bvmul", "bvand", "bvor", "bvxor", "bvnot", "bvneg", "bvshl", "bvlshr", "bvudiv", "bvurem":
		return b.width(t.list[1])
	case "ite":
		if len(t.list) == 4 {
			if w := b.width(t.list[2]); w > 0 {
				return w
			}
			return b.width(t.list[3])
		}
	case "concat":
		w := 0
		for _, c := range t.list[1:] {
			cw := b.width(c)
			if cw == 0 {
				return 0
			}
			w += cw
		}
		return w
	case "select":
		if len(t.list) == 3 {
			return b.arrayElemWidth(t.list[1], 0)
		}
	}
	return 0
}

func (b *bridgeCtx) arrayElemWidth(a *sx, depth int) int {
	if depth > 6 {
		return 0
	}
	if a.list == nil {
		if s, ok := b.sorts[a.atom]; ok && s.head() == "Array" && len(s.list) == 3 {
			return bvWidth(s.list[2].String())
		}
		return 0
	}
	switch a.head() {
	case "store":
		return b.arrayElemWidth(a.list[1], depth+1)
	case "ite":
		if len(a.list) == 4 {
			return b.arrayElemWidth(a.list[2], depth+1)
		}
	case "select":
		// (select A i) where A : Array I (Array J E)
		if a.list[1].list == nil {
			if s, ok := b.sorts[a.list[1].atom]; ok && s.head() == "Array" && len(s.list) == 3 {
				inner := s.list[2]
				if inner.head() == "Array" && len(inner.list) == 3 {
					return bvWidth(inner.list[2].String())
				}
			}
		}
	}
	return 0
}

func (b *bridgeCtx) add(l string) {
	if !b.seen[l] {
		b.seen[l] = true
		b.out = append(b.out, l)
	}
}

func (b *bridgeCtx) natLemma(x *sx) {
	xs := x.String()
	w := b.width(x)
	if w == 0 {
		b.add(fmt.Sprintf("(<= 0 (bv2nat %s))", xs))
		return
	}
	b.add(fmt.Sprintf("(and (<= 0 (bv2nat %s)) (< (bv2nat %s) %s) (= (= %s (_ bv0 %d)) (= (bv2nat %s) 0)) (= ((_ int2bv %d) (bv2nat %s)) %s))", xs, xs, pow2(w), xs, w, xs, w, xs, xs))
}

// walk visits ground subterms (binders are skipped entirely).
func (b *bridgeCtx) walk(t *sx) {
	if t.list == nil || len(t.list) == 0 {
		return
	}
	if h := t.head(); h == "forall" || h == "exists" {
		return
	}
	if len(b.out) > 600 {
		return
	}
	isI2B := t.list[0].list != nil && len(t.list[0].list) == 3 && t.list[0].list[1].atom == "int2bv" && len(t.list) == 2
	if b.pass == 0 {
		if t.head() == "bv2nat" && len(t.list) == 2 {
			b.markConv(t.list[1])
		} else if isI2B {
			b.markConv(t)
		}
		for _, c := range t.list {
			b.walk(c)
		}
		return
	}
	switch {
	case t.head() == "bv2nat" && len(t.list) == 2:
		b.natLemma(t.list[1])
	case isI2B:
		var w int
		fmt.Sscanf(t.list[0].list[2].atom, "%d", &w)
		x := t.list[1].String()
		if w > 0 {
			b.add(fmt.Sprintf("(=> (and (<= 0 %s) (< %s %s)) (= (bv2nat %s) %s))", x, x, pow2(w), t.String(), x))
			b.natLemma(t)
		}
	case len(t.list) == 3 && (t.head() == "bvult" || t.head() == "bvule" || t.head() == "bvugt" || t.head() == "bvuge"):
		if b.relevant(t.list[1], t.list[2]) {
			op := map[string]string{"bvult": "<", "bvule": "<=", "bvugt": ">", "bvuge": ">="}[t.head()]
			a, c := t.list[1].String(), t.list[2].String()
			b.add(fmt.Sprintf("(= %s (%s (bv2nat %s) (bv2nat %s)))", t.String(), op, a, c))
			b.natLemma(t.list[1])
			b.natLemma(t.list[2])
		}
	case len(t.list) == 3 && (t.head() == "bvadd" || t.head() == "bvsub"):
		if w := b.width(t.list[1]); w > 0 && b.relevant(t, t.list[1], t.list[2]) {
			a, c := t.list[1].String(), t.list[2].String()
			m := pow2(w)
			if t.head() == "bvadd" {
				b.add(fmt.Sprintf("(= (bv2nat %s) (ite (< (+ (bv2nat %s) (bv2nat %s)) %s) (+ (bv2nat %s) (bv2nat %s)) (- (+ (bv2nat %s) (bv2nat %s)) %s)))", t.String(), a, c, m, a, c, a, c, m))
			} else {
				b.add(fmt.Sprintf("(= (bv2nat %s) (ite (>= (bv2nat %s) (bv2nat %s)) (- (bv2nat %s) (bv2nat %s)) (+ (- (bv2nat %s) (bv2nat %s)) %s)))", t.String(), a, c, a, c, a, c, m))
			}
			b.natLemma(t)
			b.natLemma(t.list[1])
			b.natLemma(t.list[2])
		}
	}
	for _, c := range t.list {
		b.walk(c)
	}
}
