package main

import (
	"fmt"
	"go/token"
	"go/types"
	"strings"

	"golang.org/x/tools/go/ssa"
)

const maxInlineDepth = 12

// globalValue models loads of well-known immutable globals.
func (u *Unit) globalValue(g *ssa.Global, st *state) (Val, bool) {
	elem := g.Type().(*types.Pointer).Elem()
	if types.Identical(elem, types.Universe.Lookup("error").Type()) && u.globalInitOnly(g) {
		key := g.Pkg.Pkg.Path() + "." + g.Name()
		id, ok := u.errIDs[key]
		if !ok {
			id = intLit(int64(16 + len(u.errIDs)))
			u.errIDs[key] = id
		}
		return Val{T: elem, S: []string{intLit(int64(u.typeID(types.NewPointer(types.Typ[types.Invalid])))), id}}, true
	}
	return Val{}, false
}

var initOnlyCache = map[*ssa.Global]bool{}

// globalInitOnly reports whether g is only stored to from package initialisers.
func (u *Unit) globalInitOnly(g *ssa.Global) bool {
	if v, ok := initOnlyCache[g]; ok {
		return v
	}
	ok := true
	for _, m := range g.Pkg.Members {
		fn, isFn := m.(*ssa.Function)
		if !isFn {
			continue
		}
		if fn.Name() == "init" {
			continue
		}
		if storesTo(fn, g) {
			ok = false
		}
	}
	for _, fn := range u.prog.funcs {
		if fn.Pkg == g.Pkg && fn.Name() != "init" && !strings.HasPrefix(fn.Name(), "init#") && storesTo(fn, g) {
			ok = false
		}
	}
	initOnlyCache[g] = ok
	return ok
}

func storesTo(fn *ssa.Function, g *ssa.Global) bool {
	for _, b := range fn.Blocks {
		for _, ins := range b.Instrs {
			if s, ok := ins.(*ssa.Store); ok && s.Addr == g {
				return true
			}
		}
	}
	return false
}

// call encodes a call; returns the result value (nil for no results).
func (f *Frame) call(st *state, c *ssa.CallCommon, ins ssa.Instruction) *Val {
	u := f.u
	var resT types.Type
	if v, ok := ins.(ssa.Value); ok {
		resT = v.Type()
	}
	if b, ok := c.Value.(*ssa.Builtin); ok {
		return f.builtin(st, b, c, ins, resT)
	}
	var args []Val
	var callee *ssa.Function
	var binds []Val
	if c.IsInvoke() {
		recv := f.val(c.Value)
		nilChecked := false
		if recv.DynT != nil {
			u.oblige(f, st, "nil", f.ordLabel(ins, "nil"), ins.Pos(), not(eq(recv.S[0], "0")))
			nilChecked = true
		}
		if recv.DynT != nil {
			ms := u.prog.SSA.MethodSets.MethodSet(recv.DynT)
			sel := ms.Lookup(c.Method.Pkg(), c.Method.Name())
			if sel != nil {
				callee = u.prog.SSA.MethodValue(sel)
				args = append(args, *recv.DynV)
			}
		}
		if callee == nil {
			// an "impl" assumption of the contracts names the dynamic type of this interface type
			if n, ok := types.Unalias(c.Value.Type()).(*types.Named); ok && n.Obj().Pkg() != nil && u.db != nil {
				key := shortPkg(n.Obj().Pkg().Path()) + "." + n.Obj().Name()
				if tn, ok := u.db.Impls[key]; ok {
					if obj := n.Obj().Pkg().Scope().Lookup(strings.TrimPrefix(tn, "*")); obj != nil {
						var dt types.Type = obj.Type()
						if strings.HasPrefix(tn, "*") {
							dt = types.NewPointer(dt)
						}
						ms := u.prog.SSA.MethodSets.MethodSet(dt)
						if sel := ms.Lookup(c.Method.Pkg(), c.Method.Name()); sel != nil && len(leavesOf(dt, "elem")) == 1 {
							u.trusted["impl:"+key+"="+tn] = true
							u.ctx.assert("impl", implies(st.reach, eq(recv.S[0], intLit(int64(u.typeID(dt))))))
							callee = u.prog.SSA.MethodValue(sel)
							pv := Val{T: dt, S: []string{recv.S[1]}}
							// the value behind the interface satisfies its type's invariant, like any input
							if vt := u.validTerm(dt, pv, st, false); vt != "true" {
								u.ctx.assert("impl", implies(st.reach, vt))
							}
							args = append(args, pv)
						}
					}
				}
			}
		}
		if !nilChecked {
			// (after an "impl" assumption, which fixes the dynamic type and thereby excludes the nil interface)
			u.oblige(f, st, "nil", f.ordLabel(ins, "nil"), ins.Pos(), not(eq(recv.S[0], "0")))
		}
		if callee == nil {
			return f.abstractCall(st, c, ins, resT, "dynamic dispatch "+c.Method.Name())
		}
	} else {
		callee = c.StaticCallee()
		if callee == nil {
			fv := f.val(c.Value)
			if fv.Fn != nil {
				callee = fv.Fn
				binds = fv.Binds
			} else {
				u.oblige(f, st, "nil", f.ordLabel(ins, "nil"), ins.Pos(), not(eq(fv.S[0], "0")))
				return f.abstractCall(st, c, ins, resT, "call of function value")
			}
		} else if mc, ok := c.Value.(*ssa.MakeClosure); ok {
			for _, b := range mc.Bindings {
				binds = append(binds, f.val(b))
			}
		}
	}
	for _, a := range c.Args {
		args = append(args, f.val(a))
	}
	return f.callStatic(st, callee, args, binds, ins, resT)
}

func (f *Frame) abstractCall(st *state, c *ssa.CallCommon, ins ssa.Instruction, resT types.Type, why string) *Val {
	f.unsupported(st, ins, why)
	if resT != nil {
		hv := f.u.havocValSafe(f.prefix+".abs", resT, st)
		return hv
	}
	return nil
}

func (u *Unit) havocValSafe(prefix string, t types.Type, st *state) (out *Val) {
	defer func() {
		if r := recover(); r != nil {
			if _, ok := r.(unsupported); ok {
				out = &Val{T: t}
				return
			}
			panic(r)
		}
	}()
	v := u.havocVal(prefix, t, st.mem, st.reach)
	return &v
}

func packResults(resT types.Type, vals []Val) *Val {
	if resT == nil {
		return nil
	}
	if tup, ok := resT.(*types.Tuple); ok {
		if tup.Len() == 0 {
			return nil
		}
		out := Val{T: resT}
		for _, v := range vals {
			out.S = append(out.S, v.S...)
		}
		return &out
	}
	if len(vals) == 0 {
		return nil
	}
	v := vals[0]
	return &v
}

func (f *Frame) callStatic(st *state, callee *ssa.Function, args []Val, binds []Val, ins ssa.Instruction, resT types.Type) *Val {
	u := f.u
	full := callee.String()
	if f.ct != nil && len(f.ct.PreCalls) > 0 {
		f.checkPreCalls(st, callee, args, ins)
	}
	if m, ok := libModels[full]; ok {
		u.trusted[full] = true
		return m(f, st, callee, args, ins, resT)
	}
	key := funcKey(callee)
	// contract mode
	if ct := u.db.forFunc(key); ct != nil && ct.Mode == "contract" && !(callee == u.root && len(u.callStack) == 0) {
		return f.callByContract(st, callee, ct, args, ins, resT)
	}
	if ct := u.db.forFunc(key); ct != nil && ct.Mode == "trusted" {
		u.trusted[key] = true
		return f.callByContract(st, callee, ct, args, ins, resT)
	}
	if len(callee.Blocks) == 0 {
		return f.abstractCall(st, nil, ins, resT, "external function "+full)
	}
	if !strings.HasPrefix(pkgPathOf(callee), modRoot) && pkgPathOf(callee) != "maps" {
		return f.abstractCall(st, nil, ins, resT, "unmodelled library function "+full)
	}
	for _, s := range u.callStack {
		if s == callee {
			return f.abstractCall(st, nil, ins, resT, "recursion "+full)
		}
	}
	if len(u.callStack) >= maxInlineDepth {
		return f.abstractCall(st, nil, ins, resT, "inline depth")
	}
	// inline
	u.inlined[key] = true
	chain := key
	if f.chain != "" {
		chain = f.chain + "▸" + key
	}
	// distinguish multiple inlinings of the same callee in one frame
	n := f.inlineCount(key)
	if n > 1 {
		chain = fmt.Sprintf("%s[%d]", chain, n)
	}
	cf := u.newFrame(callee, chain)
	if cf.ct != nil {
		for _, c := range cf.ct.Requires {
			if c.Kind == "domain" {
				// the caller need not be inside the callee's functional domain: inline the body without its contract
				cf.ct = nil
				break
			}
		}
	}
	if cf.ct != nil && len(cf.ct.Requires) > 0 {
		// the callee's preconditions are checked at the call site (and then assumed, as for any obligation)
		pre := &state{reach: st.reach, mem: st.mem}
		env := u.funcEnv(callee, args, nil, pre, pre)
		for _, c := range cf.ct.Requires {
			term, quant, err := u.evalClauseBool(env, c)
			if err != nil {
				u.specErrors = append(u.specErrors, fmt.Sprintf("%s requires %v", key, err))
				continue
			}
			o := u.oblige(f, st, "pre", fmt.Sprintf("%s %s.%s", f.ordLabel(ins, "call"), key, c.Label), ins.Pos(), term)
			o.Quant = quant
		}
	}
	for i, p := range callee.Params {
		cf.bind(p, args[i])
		cf.params = append(cf.params, cf.vals[p])
	}
	cf.free = binds
	u.callStack = append(u.callStack, callee)
	ret, results := cf.run(&state{reach: st.reach, mem: st.mem})
	u.callStack = u.callStack[:len(u.callStack)-1]
	st.reach = ret.reach
	st.mem = ret.mem
	return packResults(resT, results)
}

var inlineCounts = map[*Frame]map[string]int{}

func (f *Frame) inlineCount(key string) int {
	m := inlineCounts[f]
	if m == nil {
		m = map[string]int{}
		inlineCounts[f] = m
	}
	m[key]++
	return m[key]
}

func pkgPathOf(fn *ssa.Function) string {
	if fn.Pkg != nil {
		return fn.Pkg.Pkg.Path()
	}
	if fn.Parent() != nil {
		return pkgPathOf(fn.Parent())
	}
	if fn.Object() != nil && fn.Object().Pkg() != nil {
		return fn.Object().Pkg().Path()
	}
	if o := fn.Origin(); o != nil && o != fn {
		return pkgPathOf(o)
	}
	return ""
}

// ---------- builtins ----------

func (f *Frame) builtin(st *state, b *ssa.Builtin, c *ssa.CallCommon, ins ssa.Instruction, resT types.Type) *Val {
	u := f.u
	switch b.Name() {
	case "len":
		v := f.val(c.Args[0])
		switch c.Args[0].Type().Underlying().(type) {
		case *types.Slice, *types.Basic:
			return &Val{T: resT, S: []string{v.S[1]}}
		case *types.Map:
			return &Val{T: resT, S: []string{u.mapLen(st, v, c.Args[0].Type())}}
		case *types.Pointer, *types.Array:
			var arr *types.Array
			if p, ok := c.Args[0].Type().Underlying().(*types.Pointer); ok {
				arr = p.Elem().Underlying().(*types.Array)
			} else {
				arr = c.Args[0].Type().Underlying().(*types.Array)
			}
			return &Val{T: resT, S: []string{intLit(arr.Len())}}
		}
	case "cap":
		v := f.val(c.Args[0])
		if _, ok := c.Args[0].Type().Underlying().(*types.Slice); ok {
			return &Val{T: resT, S: []string{v.S[2]}}
		}
	case "append":
		s := f.val(c.Args[0])
		if len(c.Args) == 1 {
			return &s
		}
		xs := f.val(c.Args[1])
		if f.ct != nil && len(f.ct.PreCalls) > 0 {
			f.checkPreCallsNamed(st, "append", []Val{s, xs}, ins)
		}
		r := u.appendSlice(f, st, ins, c.Args[0].Type(), s, xs, c.Args[1].Type())
		return &r
	case "copy":
		dst, src := f.val(c.Args[0]), f.val(c.Args[1])
		n := u.copySlice(st, c.Args[0].Type(), dst, src, c.Args[1].Type())
		return &Val{T: resT, S: []string{n}}
	case "delete":
		u.mapDelete(st, f.val(c.Args[0]), c.Args[0].Type(), f.val(c.Args[1]))
		return nil
	case "close":
		ch := f.val(c.Args[0])
		cl := u.arr(st.mem, chanClosedSite, SBool)
		u.oblige(f, st, "panic", f.ordLabel(ins, "call")+" close of nil or closed channel", ins.Pos(), and(not(eq(ch.S[0], "0")), not(sel(cl, ch.S[0]))))
		u.setArr(st.mem, chanClosedSite, SBool, store(cl, ch.S[0], "true"))
		return nil
	case "clear":
		switch c.Args[0].Type().Underlying().(type) {
		case *types.Map:
			u.mapClear(st, f.val(c.Args[0]), c.Args[0].Type())
			return nil
		case *types.Slice:
			v := f.val(c.Args[0])
			sl := c.Args[0].Type().Underlying().(*types.Slice)
			u.zeroFill(st, sl.Elem(), v.S[0], mul(v.S[1], intLit(int64(elemStride(sl.Elem())))))
			return nil
		}
	case "print", "println":
		return nil
	case "min", "max":
		if len(c.Args) == 2 && isIntSort(c.Args[0].Type()) {
			a, bb := f.val(c.Args[0]).S[0], f.val(c.Args[1]).S[0]
			if b.Name() == "min" {
				return &Val{T: resT, S: []string{ite(le(a, bb), a, bb)}}
			}
			return &Val{T: resT, S: []string{ite(le(a, bb), bb, a)}}
		}
	}
	f.unsupported(st, ins, "builtin "+b.Name())
	if resT != nil {
		return u.havocValSafe(f.prefix+".bi", resT, st)
	}
	return nil
}

// appendSlice models append(s, xs...).
func (u *Unit) appendSlice(f *Frame, st *state, ins ssa.Instruction, sT types.Type, s, xs Val, xsT types.Type) Val {
	sl := sT.Underlying().(*types.Slice)
	elem := sl.Elem()
	stride := elemStride(elem)
	p, n, c := s.S[0], s.S[1], s.S[2]
	var q, m string
	fromString := false
	if b, ok := xsT.Underlying().(*types.Basic); ok && b.Info()&types.IsString != 0 {
		q, m = xs.S[0], xs.S[1]
		fromString = true
	} else {
		q, m = xs.S[0], xs.S[1]
	}
	newLen := u.ctx.def("applen", SInt, add(n, m))
	fits := u.ctx.def("appfits", SBool, le(newLen, c))
	// new capacity when reallocating: unknown, at least newLen
	nc := u.ctx.freshConst("appcap", SInt)
	u.ctx.assert("append", le(newLen, nc))
	fresh := st.mem.alloc
	st.mem.alloc = u.ctx.def("alloc", SInt, ite(fits, st.mem.alloc, add(st.mem.alloc, add(mul(nc, intLit(int64(stride))), "1"))))
	base := u.ctx.def("appbase", SInt, ite(fits, p, fresh))
	ls := leavesOf(elem, "elem")
	if stride == 1 && len(ls) == 1 {
		l := ls[0]
		srcSite, srcSort := l.Site, l.Sort
		if fromString {
			srcSite, srcSort = strSite, SBV(8)
		}
		old := u.arr(st.mem, l.Site, l.Sort)
		src := u.arr(st.mem, srcSite, srcSort)
		na := u.ctx.freshConst("Ma:"+l.Site, SArr(SInt, l.Sort))
		a := "a!"
		// prefix copy (identity when in place), then the appended elements
		body := ite(and(le(base, a), lt(a, add(base, n))), sel(old, add(p, sub(a, base))),
			ite(and(le(add(base, n), a), lt(a, add(base, newLen))), sel(src, add(q, sub(a, add(base, n)))), sel(old, a)))
		u.ctx.assert("append", fmt.Sprintf("(forall ((a! Int)) (! (= (select %s a!) %s) :pattern ((select %s a!))))", na, body, na))
		u.sortOfSite(l.Site, l.Sort)
		u.putArr(st.mem, l.Site, na)
	} else {
		// general element type: per-site arrays, element k of xs goes to index n+k
		seen := map[string]bool{}
		for _, l := range ls {
			if seen[l.Site] {
				continue
			}
			seen[l.Site] = true
			old := u.arr(st.mem, l.Site, l.Sort)
			na := u.ctx.freshConst("Ma:"+l.Site, SArr(SInt, l.Sort))
			a := "a!"
			total := mul(newLen, intLit(int64(stride)))
			nb := mul(n, intLit(int64(stride)))
			body := ite(and(le(base, a), lt(a, add(base, nb))), sel(old, add(p, sub(a, base))),
				ite(and(le(add(base, nb), a), lt(a, add(base, total))), sel(old, add(q, sub(a, add(base, nb)))), sel(old, a)))
			u.ctx.assert("append", fmt.Sprintf("(forall ((a! Int)) (! (= (select %s a!) %s) :pattern ((select %s a!))))", na, body, na))
			u.sortOfSite(l.Site, l.Sort)
			u.putArr(st.mem, l.Site, na)
		}
	}
	return Val{T: sT, S: []string{base, newLen, u.ctx.def("appcapr", SInt, ite(fits, c, nc))}}
}

func (u *Unit) copySlice(st *state, dT types.Type, dst, src Val, sT types.Type) string {
	sl := dT.Underlying().(*types.Slice)
	elem := sl.Elem()
	stride := elemStride(elem)
	n := u.ctx.def("copyn", SInt, ite(le(dst.S[1], src.S[1]), dst.S[1], src.S[1]))
	fromString := false
	if b, ok := sT.Underlying().(*types.Basic); ok && b.Info()&types.IsString != 0 {
		fromString = true
	}
	seen := map[string]bool{}
	for _, l := range leavesOf(elem, "elem") {
		if seen[l.Site] {
			continue
		}
		seen[l.Site] = true
		srcSite, srcSort := l.Site, l.Sort
		if fromString {
			srcSite, srcSort = strSite, SBV(8)
		}
		base := u.arr(st.mem, l.Site, l.Sort)
		srcArr := u.arr(st.mem, srcSite, srcSort)
		u.sortOfSite(l.Site, l.Sort)
		u.putArr(st.mem, l.Site, u.copyArray(l.Site, l.Sort, base, srcArr, dst.S[0], src.S[0], mul(n, intLit(int64(stride)))))
	}
	return n
}

// ---------- strings ----------

func (f *Frame) stringOp(x *ssa.BinOp, a, b Val, st *state) {
	u := f.u
	switch x.Op {
	case token.EQL, token.NEQ:
		e := u.strEq(st, a, b)
		if x.Op == token.NEQ {
			e = not(e)
		}
		f.bind(x, Val{S: []string{e}})
	case token.ADD:
		f.bind(x, u.strConcat(st, a, b, x.Type()))
	default:
		// ordering comparisons: uninterpreted
		f.bind(x, Val{S: []string{u.ctx.freshConst("strcmp", SBool)}})
	}
}

func (u *Unit) strEq(st *state, a, b Val) string {
	return u.strEqArr(u.arr(st.mem, strSite, SBV(8)), a, b)
}

func (u *Unit) strEqArr(arr string, a, b Val) string {
	if a.ConstS != nil && b.ConstS == nil {
		a, b = b, a
	}
	if b.ConstS != nil && len(*b.ConstS) <= 64 {
		cs := []string{eq(a.S[1], intLit(int64(len(*b.ConstS))))}
		for i := 0; i < len(*b.ConstS); i++ {
			cs = append(cs, eq(sel(arr, add(a.S[0], intLit(int64(i)))), bvLitU(uint64((*b.ConstS)[i]), 8)))
		}
		return and(cs...)
	}
	e := u.ctx.freshConst("streq", SBool)
	w := u.ctx.freshConst("strw", SInt)
	pos := fmt.Sprintf("(forall ((i! Int)) (=> (and (<= 0 i!) (< i! %s)) (= (select %s (+ %s i!)) (select %s (+ %s i!)))))", a.S[1], arr, a.S[0], arr, b.S[0])
	u.ctx.assert("streq", implies(e, and(eq(a.S[1], b.S[1]), pos)))
	u.ctx.assert("streq", implies(not(e), or(not(eq(a.S[1], b.S[1])),
		and(le("0", w), lt(w, a.S[1]), not(eq(sel(arr, add(a.S[0], w)), sel(arr, add(b.S[0], w))))))))
	return e
}

func (u *Unit) strConcat(st *state, a, b Val, t types.Type) Val {
	n := u.ctx.def("catlen", SInt, add(a.S[1], b.S[1]))
	p := u.alloc(st, n)
	old := u.arr(st.mem, strSite, SBV(8))
	na := u.ctx.freshConst("Ms", SArr(SInt, SBV(8)))
	x := "a!"
	body := ite(and(le(p, x), lt(x, add(p, a.S[1]))), sel(old, add(a.S[0], sub(x, p))),
		ite(and(le(add(p, a.S[1]), x), lt(x, add(p, n))), sel(old, add(b.S[0], sub(x, add(p, a.S[1])))), sel(old, x)))
	u.ctx.assert("strcat", fmt.Sprintf("(forall ((a! Int)) (! (= (select %s a!) %s) :pattern ((select %s a!))))", na, body, na))
	u.sortOfSite(strSite, SBV(8))
	u.putArr(st.mem, strSite, na)
	return Val{T: t, S: []string{ite(eq(n, "0"), "0", p), n}}
}

// freshString returns a string value of unknown content (fresh storage).
func (u *Unit) freshString(st *state, t types.Type, prefix string) Val {
	n := u.ctx.freshConst(prefix+".len", SInt)
	u.ctx.assert("freshstr", and(le("0", n), le(n, "1099511627776")))
	p := u.alloc(st, n)
	// content of the fresh region is unconstrained: havoc the region by a fresh array agreeing below p
	old := u.arr(st.mem, strSite, SBV(8))
	na := u.ctx.freshConst("Ms", SArr(SInt, SBV(8)))
	u.ctx.assert("freshstr", fmt.Sprintf("(forall ((a! Int)) (! (=> (< a! %s) (= (select %s a!) (select %s a!))) :pattern ((select %s a!))))", p, na, old, na))
	u.sortOfSite(strSite, SBV(8))
	u.putArr(st.mem, strSite, na)
	return Val{T: t, S: []string{ite(eq(n, "0"), "0", p), n}}
}


// checkPreCalls evaluates the function's call-site assertions for this call.
func (f *Frame) checkPreCalls(st *state, callee *ssa.Function, args []Val, ins ssa.Instruction) {
	f.checkPreCallsNamed(st, callee.Name(), args, ins)
}

func (f *Frame) checkPreCallsNamed(st *state, name string, args []Val, ins ssa.Instruction) {
	u := f.u
	if f.callOrd == nil {
		f.callOrd = map[string]int{}
	}
	f.callOrd[name]++
	nth := f.callOrd[name]
	for _, pc := range f.ct.PreCalls {
		if pc.Callee != name || (pc.Nth != 0 && pc.Nth != nth) {
			continue
		}
		blk := ins.Block()
		idx := 0
		for i, x := range blk.Instrs {
			if x == ins {
				idx = i
			}
		}
		f.atBlock, f.atIdx = blk, idx
		cur := &state{reach: st.reach, mem: st.mem}
		env := &Env{u: u, f: f, st: cur, old: &state{reach: f.entryR, mem: f.entry}, pkg: f.pkgTypes(), bound: map[string]Val{},
			look: func(n string) (Val, bool) { return f.lookupVar(n, cur, nil, nil) }}
		for i, a := range args {
			env.bound[fmt.Sprintf("arg%d", i)] = a
		}
		term, quant, err := f.evalClause(env, pc.Label, pc.Src, func() string { return env.evalBool(pc.Expr) })
		f.atBlock = nil
		if err != nil {
			u.specErrors = append(u.specErrors, fmt.Sprintf("%s precall %v", f.key, err))
			continue
		}
		o := u.oblige(f, st, "assert", fmt.Sprintf("%s#%d.%s", name, nth, pc.Label), ins.Pos(), term)
		o.Quant = quant
	}
}
