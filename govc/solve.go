package main

import (
	"bytes"
	"context"
	"fmt"
	"os"
	"os/exec"
	"path/filepath"
	"strings"
	"sync"
	"sync/atomic"
	"time"
)

type SolveResult struct {
	Verdict string // unsat | sat | unknown
	Solver  string
	Seconds float64
	Model   map[string]string
	Output  string // raw output (trimmed) of the deciding or last solver
	Agree   int    // number of solvers that answered the same definite verdict
}

type solverSpec struct {
	name string
	bin  string
	args func(timeoutMs int, file string) []string
}

var solvers = []solverSpec{
	{"z3-5.1.0", "z3-new", func(ms int, f string) []string { return []string{fmt.Sprintf("-t:%d", ms), f} }},
	{"z3-4.8.12", "z3", func(ms int, f string) []string { return []string{fmt.Sprintf("-t:%d", ms), f} }},
	{"cvc5-1.0", "cvc5", func(ms int, f string) []string {
		return []string{fmt.Sprintf("--tlimit=%d", ms), "--lang=smt2", f}
	}},
	{"cvc5-1.0/e-matching", "cvc5", func(ms int, f string) []string {
		return []string{fmt.Sprintf("--tlimit=%d", ms), "--lang=smt2", "--no-cbqi", f}
	}},
}

var queryCounter int64
var workDirOnce sync.Once
var workDir string

func queryDir() string {
	workDirOnce.Do(func() {
		workDir = filepath.Join(verifRoot(), ".work", fmt.Sprintf("q-%d", os.Getpid()))
		os.MkdirAll(workDir, 0o755)
	})
	return workDir
}

func cleanupQueries() {
	if workDir != "" && os.Getenv("GOVC_KEEP") == "" {
		os.RemoveAll(workDir)
	}
}

func runOne(ctx context.Context, s solverSpec, file string, timeout time.Duration) (string, string) {
	cctx, cancel := context.WithTimeout(ctx, timeout+2*time.Second)
	defer cancel()
	cmd := exec.CommandContext(cctx, s.bin, s.args(int(timeout/time.Millisecond), file)...)
	var out bytes.Buffer
	cmd.Stdout = &out
	cmd.Stderr = &out
	_ = cmd.Run()
	text := out.String()
	first := strings.TrimSpace(strings.SplitN(text, "\n", 2)[0])
	switch first {
	case "sat", "unsat":
		return first, text
	}
	return "unknown", text
}

// solveQuick runs only the fast first stage (one solver, at most 3 s).
func solveQuick(script string, timeout time.Duration) SolveResult {
	id := atomic.AddInt64(&queryCounter, 1)
	file := filepath.Join(queryDir(), fmt.Sprintf("q%d.smt2", id))
	os.WriteFile(file, []byte("(set-logic ALL)\n"+script+"(check-sat)\n"), 0o644)
	defer func() {
		if os.Getenv("GOVC_KEEP") == "" {
			os.Remove(file)
		}
	}()
	start := time.Now()
	quick := 3 * time.Second
	if timeout < quick {
		quick = timeout
	}
	v, out := runOne(context.Background(), solvers[0], file, quick)
	return SolveResult{Verdict: v, Solver: solvers[0].name, Output: trimOut(out), Agree: 1, Seconds: time.Since(start).Seconds()}
}

// solve runs the script (without check-sat; it is appended) on the portfolio.
// getVals are symbols whose values are requested when sat.
func solve(script string, getVals []string, timeout time.Duration, needAgree int) SolveResult {
	id := atomic.AddInt64(&queryCounter, 1)
	// proof attempts run without model production (it slows the quantifier engines down considerably);
	// a model is fetched by a second query only after some solver has answered sat
	proof := "(set-logic ALL)\n" + script + "(check-sat)\n"
	file := filepath.Join(queryDir(), fmt.Sprintf("q%d.smt2", id))
	os.WriteFile(file, []byte(proof), 0o644)
	defer func() {
		if os.Getenv("GOVC_KEEP") == "" {
			os.Remove(file)
		}
	}()
	start := time.Now()
	finish := func(res SolveResult) SolveResult {
		if res.Verdict == "sat" && len(getVals) > 0 {
			res.Model = fetchModel(script, getVals, id, timeout)
		}
		res.Seconds = time.Since(start).Seconds()
		return res
	}
	// stage 1: fast single solver
	if needAgree <= 1 {
		quick := 3 * time.Second
		if timeout < quick {
			quick = timeout
		}
		v, out := runOne(context.Background(), solvers[0], file, quick)
		if v != "unknown" {
			return finish(SolveResult{Verdict: v, Solver: solvers[0].name, Output: trimOut(out), Agree: 1})
		}
	}
	// stage 2: race
	ctx, cancel := context.WithCancel(context.Background())
	defer cancel()
	type ans struct {
		v, out, solver string
	}
	ch := make(chan ans, len(solvers))
	for _, s := range solvers {
		s := s
		go func() {
			v, out := runOne(ctx, s, file, timeout)
			ch <- ans{v, out, s.name}
		}()
	}
	res := SolveResult{Verdict: "unknown"}
	counts := map[string]int{}
	var lastOut []string
	for i := 0; i < len(solvers); i++ {
		a := <-ch
		lastOut = append(lastOut, a.solver+": "+trimOut(a.out))
		if a.v == "unknown" {
			continue
		}
		counts[a.v]++
		if res.Verdict == "unknown" {
			res.Verdict = a.v
			res.Solver = a.solver
			res.Output = trimOut(a.out)
		} else if res.Verdict != a.v {
			res.Verdict = "unknown"
			res.Output = "SOLVER DISAGREEMENT: " + strings.Join(lastOut, " | ")
			res.Seconds = time.Since(start).Seconds()
			return res
		}
		if counts[a.v] >= needAgree || (a.v == "sat" && needAgree <= 2) {
			break
		}
	}
	res.Agree = counts[res.Verdict]
	if res.Verdict == "unknown" {
		res.Output = strings.Join(lastOut, " | ")
	}
	return finish(res)
}

// fetchModel re-runs a satisfiable query with model production and reads the requested values.
func fetchModel(script string, getVals []string, id int64, timeout time.Duration) map[string]string {
	var b strings.Builder
	b.WriteString("(set-option :produce-models true)\n(set-logic ALL)\n")
	b.WriteString(script)
	b.WriteString("(check-sat)\n")
	for _, v := range getVals {
		fmt.Fprintf(&b, "(get-value (%s))\n", v)
	}
	file := filepath.Join(queryDir(), fmt.Sprintf("q%d.model.smt2", id))
	os.WriteFile(file, []byte(b.String()), 0o644)
	defer func() {
		if os.Getenv("GOVC_KEEP") == "" {
			os.Remove(file)
		}
	}()
	for _, s := range []solverSpec{solvers[1], solvers[0]} {
		v, out := runOne(context.Background(), s, file, timeout)
		if v == "sat" {
			return parseModel(out)
		}
	}
	return map[string]string{}
}

func trimOut(s string) string {
	s = strings.TrimSpace(s)
	if len(s) > 1500 {
		s = s[:1500] + "..."
	}
	return s
}

// parseModel parses "((sym value))" lines produced by get-value.
func parseModel(out string) map[string]string {
	m := map[string]string{}
	lines := strings.Split(out, "\n")
	// join everything after the first line and split on top-level "((" groups
	if len(lines) < 2 {
		return m
	}
	rest := strings.Join(lines[1:], " ")
	depth := 0
	startIdx := -1
	inq := false
	for i := 0; i < len(rest); i++ {
		c := rest[i]
		if c == '|' {
			inq = !inq
			continue
		}
		if inq {
			continue
		}
		if c == '(' {
			if depth == 0 {
				startIdx = i
			}
			depth++
		} else if c == ')' {
			depth--
			if depth == 0 && startIdx >= 0 {
				grp := strings.TrimSpace(rest[startIdx+1 : i]) // "(sym value)"
				if strings.HasPrefix(grp, "(") && strings.HasSuffix(grp, ")") {
					inner := strings.TrimSpace(grp[1 : len(grp)-1])
					var sym, val string
					if strings.HasPrefix(inner, "|") {
						j := strings.IndexByte(inner[1:], '|')
						if j >= 0 {
							sym = inner[:j+2]
							val = strings.TrimSpace(inner[j+2:])
						}
					} else if k := strings.IndexAny(inner, " \t"); k > 0 {
						sym = inner[:k]
						val = strings.TrimSpace(inner[k:])
					}
					if sym != "" {
						m[sym] = val
					}
				}
				startIdx = -1
			}
		}
	}
	return m
}
