package main

import (
	"encoding/json"
	"fmt"
	"os"
	"path/filepath"
	"go/ast"
	"go/printer"
	"go/token"
	"go/types"
	"sort"
	"strings"
	"sync"
	"time"

	"golang.org/x/tools/go/ssa"
)

type UnitResult struct {
	Key         string
	Obls        []*Obligation
	Rejected    string // non-empty: the unit could not be encoded
	SpecErrors  []string
	Notes       []string
	Trusted     []string
	Inlined     []string
	ByContract  []string
	UsedLemmas  []string // "pkg.name" of lemmas assumed, "frame:pkg.name" of frame lemmas assumed
	EncodeSec   float64
	SolveSec    float64
	Vacuity     string // "sat" expected for requires
	unit        *Unit
	LoopNotes   []string
}

func newUnit(p *Program, db *ContractDB, root *ssa.Function) *Unit {
	rk := ""
	if root != nil {
		rk = funcKey(root)
	}
	u := &Unit{prog: p, root: root, rootKey: rk, ctx: newCtx(), db: db, siteSort: map[string]string{}, m0: map[string]string{},
		inlined: map[string]bool{}, usedCtr: map[string]bool{}, globals: map[string]string{}, strConsts: map[string]string{},
		typeIDs: map[string]int{}, errIDs: map[string]string{}, ordCache: map[*ssa.Function]map[ssa.Instruction]map[string]int{},
		trusted: map[string]bool{}, specDefs: map[string]*specDef{}, usedLemmas: map[string]bool{}}
	a0 := u.ctx.declare("alloc0", SInt)
	u.ctx.assert("alloc0", le("65536", a0))
	u.entryMem = &Mem{arr: map[string]string{}, alloc: a0}
	return u
}

func resultNames(fn *ssa.Function) []string {
	res := fn.Signature.Results()
	var names []string
	for i := 0; i < res.Len(); i++ {
		n := res.At(i).Name()
		if n == "" || n == "_" {
			if res.Len() == 1 {
				n = "result"
			} else {
				n = fmt.Sprintf("result%d", i)
			}
		}
		names = append(names, n)
	}
	return names
}

// funcEnv builds the environment for requires/ensures of fn with given params/results.
func (u *Unit) funcEnv(fn *ssa.Function, params []Val, results []Val, st, old *state) *Env {
	names := resultNames(fn)
	var pkg *types.Package
	top := fn
	for top.Parent() != nil {
		top = top.Parent()
	}
	if top.Pkg != nil {
		pkg = top.Pkg.Pkg
	}
	var lookSt func(name string, s *state) (Val, bool)
	if len(fn.FreeVars) > 0 && u.rootFrame != nil && u.rootFrame.fn == fn {
		// captured variables of a closure verified as a root: cells of the enclosing function
		free := u.rootFrame.free
		lookSt = func(name string, s *state) (Val, bool) {
			for i, fv := range fn.FreeVars {
				if fv.Name() == name && i < len(free) {
					elem := fv.Type().(*types.Pointer).Elem()
					env := &Env{u: u, st: s}
					return env.loadAt(free[i].S[0], elem, "elem"), true
				}
			}
			return Val{}, false
		}
	}
	return &Env{u: u, st: st, old: old, pkg: pkg, bound: map[string]Val{}, lookSt: lookSt, look: func(name string) (Val, bool) {
		for i, p := range fn.Params {
			if p.Name() == name && i < len(params) {
				return params[i], true
			}
		}
		for i, n := range names {
			if (n == name || (name == "result" && len(names) == 1)) && i < len(results) {
				return results[i], true
			}
		}
		return Val{}, false
	}}
}

func (u *Unit) evalClauseBool(env *Env, c Clause) (string, bool, error) {
	var term string
	var err error
	func() {
		defer func() {
			if r := recover(); r != nil {
				switch x := r.(type) {
				case specError:
					err = fmt.Errorf("%s: %s", c.Label, x.msg)
				case unsupported:
					err = fmt.Errorf("%s: %s", c.Label, x.msg)
				default:
					panic(r)
				}
			}
		}()
		term = env.evalBool(c.Expr)
	}()
	return term, env.quant, err
}

// modRanges evaluates the modifies clauses of ct into per-site address predicates.
// The result maps site -> function(addr term) -> "addr is in the modifies set".
func (u *Unit) modRanges(ct *FuncContract, env *Env) (map[string][]func(a string) string, error) {
	out := map[string][]func(a string) string{}
	var err error
	for i, e := range ct.Modifies {
		func() {
			defer func() {
				if r := recover(); r != nil {
					switch x := r.(type) {
					case specError:
						err = fmt.Errorf("modifies %s: %s", ct.ModSrc[i], x.msg)
					case unsupported:
						err = fmt.Errorf("modifies %s: %s", ct.ModSrc[i], x.msg)
					default:
						panic(r)
					}
				}
			}()
			u.modEntry(e, env, out)
		}()
	}
	return out, err
}

func (u *Unit) modEntry(e ast.Expr, env *Env, out map[string][]func(a string) string) {
	// elems(s): all element cells of slice s (up to cap)
	if call, ok := e.(*ast.CallExpr); ok {
		if id, ok := call.Fun.(*ast.Ident); ok {
			switch id.Name {
			case "elems":
				s := env.eval(call.Args[0])
				sl, ok := s.T.Underlying().(*types.Slice)
				if !ok {
					specErrf("elems of non-slice")
				}
				stride := elemStride(sl.Elem())
				lo, hi := s.S[0], add(s.S[0], mul(s.S[2], intLit(int64(stride))))
				seen := map[string]bool{}
				for _, l := range leavesOf(sl.Elem(), "elem") {
					if seen[l.Site] {
						continue
					}
					seen[l.Site] = true
					u.sortOfSite(l.Site, l.Sort)
					out[l.Site] = append(out[l.Site], func(a string) string { return and(le(lo, a), lt(a, hi)) })
				}
				return
			case "allof":
				// allof(T.f): every cell of field f of struct type T ([pkg.]T.f) - a coarse, type-based frame entry
				// allof(T): every field of T
				{
					var b strings.Builder
					printer.Fprint(&b, token.NewFileSet(), call.Args[0])
					var whole types.Type
					func() {
						defer func() { recover() }()
						whole = env.specType(shortPkgOf(env), b.String())
					}()
					if whole != nil {
						if stu, ok := whole.Underlying().(*types.Struct); ok {
							for i := 0; i < stu.NumFields(); i++ {
								for _, l := range leavesOf(stu.Field(i).Type(), fieldHint(whole, i)) {
									u.sortOfSite(l.Site, l.Sort)
									out[l.Site] = append(out[l.Site], func(a string) string { return "true" })
								}
							}
							return
						}
					}
				}
				sel, ok := call.Args[0].(*ast.SelectorExpr)
				if !ok {
					specErrf("allof expects Type.field")
				}
				var tname string
				switch x := sel.X.(type) {
				case *ast.Ident:
					tname = x.Name
				case *ast.SelectorExpr:
					if pk, ok := x.X.(*ast.Ident); ok {
						tname = pk.Name + "." + x.Sel.Name
					}
				}
				st := env.specType(shortPkgOf(env), tname)
				stu, ok := st.Underlying().(*types.Struct)
				if !ok {
					specErrf("allof: %s is not a struct type", tname)
				}
				for i := 0; i < stu.NumFields(); i++ {
					if stu.Field(i).Name() == sel.Sel.Name {
						for _, l := range leavesOf(stu.Field(i).Type(), fieldHint(st, i)) {
							u.sortOfSite(l.Site, l.Sort)
							out[l.Site] = append(out[l.Site], func(a string) string { return "true" })
						}
						return
					}
				}
				specErrf("allof: no field %s in %s", sel.Sel.Name, tname)
			case "allelems":
				// allelems(T): every cell that holds an element of type T (slice and array elements, new(T) cells)
				var b strings.Builder
				printer.Fprint(&b, token.NewFileSet(), call.Args[0])
				t := env.specType(shortPkgOf(env), b.String())
				for _, l := range leavesOf(t, "elem") {
					u.sortOfSite(l.Site, l.Sort)
					out[l.Site] = append(out[l.Site], func(a string) string { return "true" })
				}
				return
			case "mapof":
				m := env.eval(call.Args[0])
				ws := newWriteSet()
				u.mapSites(m.T, ws)
				for s, srt := range ws.sites {
					u.sortOfSite(s, srt)
					ref := m.S[0]
					out[s] = append(out[s], func(a string) string { return eq(a, ref) })
				}
				return
			}
		}
	}
	var v Val
	var addr, hint string
	if st, ok := e.(*ast.StarExpr); ok {
		p := env.eval(st.X)
		pt, ok := p.T.Underlying().(*types.Pointer)
		if !ok {
			specErrf("modifies *x: x must be a pointer")
		}
		v = Val{T: pt.Elem()}
		addr, hint = p.S[0], p.Hint
		if hint == "" {
			hint = "elem"
		}
	} else {
		v = env.eval(e)
		addr, hint = v.Addr, v.AddrHint
		if addr == "" {
			specErrf("modifies entry is not an addressable location")
		}
	}
	for _, l := range leavesOf(v.T, hint) {
		l := l
		u.sortOfSite(l.Site, l.Sort)
		cell := add(addr, intLit(int64(l.Off)))
		out[l.Site] = append(out[l.Site], func(a string) string { return eq(a, cell) })
	}
}

func inAny(fs []func(a string) string, a string) string {
	var cs []string
	for _, f := range fs {
		cs = append(cs, f(a))
	}
	return or(cs...)
}

// validTerm: implicit validity of a parameter: non-nil method receivers, and the package's "valid" predicate for *T.
func (u *Unit) validTerm(t types.Type, v Val, st *state, isRecv bool) string {
	pt, ok := t.Underlying().(*types.Pointer)
	if !ok {
		return "true"
	}
	var cs []string
	if isRecv {
		cs = append(cs, not(eq(v.S[0], "0")))
	}
	if n, ok := types.Unalias(pt.Elem()).(*types.Named); ok && n.Obj().Pkg() != nil {
		if vd := u.db.Valid[shortPkg(n.Obj().Pkg().Path())+"."+n.Obj().Name()]; vd != nil {
			env := &Env{u: u, st: st, old: st, pkg: n.Obj().Pkg(), bound: map[string]Val{vd.Var: v}}
			func() {
				defer func() {
					if r := recover(); r != nil {
						u.specErrors = append(u.specErrors, fmt.Sprintf("valid %s: %v", vd.Type, r))
					}
				}()
				cs = append(cs, env.evalBool(vd.Expr))
			}()
		}
	}
	return and(cs...)
}

// callByContract: check requires, havoc the callee's write set under its frame, assume ensures.
func (f *Frame) callByContract(st *state, callee *ssa.Function, ct *FuncContract, args []Val, ins ssa.Instruction, resT types.Type) *Val {
	u := f.u
	u.usedCtr[ct.Key] = true
	pre := &state{reach: st.reach, mem: st.mem.clone()}
	envPre := u.funcEnv(callee, args, nil, pre, pre)
	var domain []string
	for _, c := range ct.Requires {
		term, quant, err := u.evalClauseBool(envPre, c)
		if err != nil {
			u.specErrors = append(u.specErrors, fmt.Sprintf("%s requires %v", ct.Key, err))
			continue
		}
		if c.Kind == "domain" {
			domain = append(domain, term)
			continue
		}
		o := u.oblige(f, st, "pre", fmt.Sprintf("%s %s.%s", f.ordLabel(ins, "call"), ct.Key, c.Label), ins.Pos(), term)
		o.Quant = quant
	}
	inDomain := u.ctx.def("indomain", SBool, and(domain...))
	for i, prm := range callee.Params {
		if t := u.validTerm(prm.Type(), args[i], pre, i == 0 && callee.Signature.Recv() != nil); t != "true" {
			u.oblige(f, st, "pre", fmt.Sprintf("%s %s.valid:%s", f.ordLabel(ins, "call"), ct.Key, prm.Name()), ins.Pos(), t)
		}
	}
	ranges, err := u.modRanges(ct, envPre)
	if err != nil {
		u.specErrors = append(u.specErrors, fmt.Sprintf("%s %v", ct.Key, err))
	}
	ws := u.writesOfFunc(callee)
	if ws.top {
		f.unsupported(st, ins, "callee "+ct.Key+" has unknown writes")
	}
	var sites []string
	for s := range ws.sites {
		sites = append(sites, s)
	}
	sort.Strings(sites)
	preAlloc := st.mem.alloc
	na := u.ctx.freshConst(f.prefix+".callalloc", SInt)
	u.ctx.assert("call-alloc", le(preAlloc, na))
	st.mem.alloc = na
	for _, s := range sites {
		srt := ws.sites[s]
		if s == "ghost.clock" {
			// the callee reads the clock: time passes (monotonically) during the call
			old := u.arr(st.mem, s, srt)
			h := u.ctx.freshConst(f.prefix+".callclock", SArr(SInt, srt))
			u.putArr(st.mem, s, h)
			u.ctx.assert("call-clock", implies(st.reach, and(app("bvsle", sel(old, "0"), sel(h, "0")), app("bvsle", sel(h, "0"), bvLitU(1<<62, 64)))))
			continue
		}
		if len(ranges[s]) == 0 {
			// The callee writes this site only in memory it allocates itself. Cells at or above the allocation pointer
			// are unconstrained in the caller's heap, so the same array can stand for the heap after the call: the
			// callee's postconditions become facts about those (so far unconstrained) cells.
			u.sortOfSite(s, srt)
			continue
		}
		old := u.arr(st.mem, s, srt)
		u.sortOfSite(s, srt)
		h := u.ctx.freshConst(f.prefix+".callM:"+s, SArr(SInt, srt))
		u.putArr(st.mem, s, h)
		u.typingAxiom(h, s, na)
		in := inAny(ranges[s], "a!")
		u.ctx.assert("call-frame", fmt.Sprintf("(forall ((a! Int)) (! (=> (and (< a! %s) %s) (= (select %s a!) (select %s a!))) :pattern ((select %s a!))))", preAlloc, not(in), h, old, h))
	}
	// results
	var results []Val
	if resT != nil {
		if tup, ok := resT.(*types.Tuple); ok {
			for i := 0; i < tup.Len(); i++ {
				results = append(results, u.havocVal(f.prefix+".cres", tup.At(i).Type(), st.mem, st.reach))
			}
		} else {
			results = append(results, u.havocVal(f.prefix+".cres", resT, st.mem, st.reach))
		}
	}
	envPost := u.funcEnv(callee, args, results, st, pre)
	envPost.assume = true
	u.bindGhosts(envPost, callee, ct, nil, f.prefix+".c", st)
	u.assumeLemmaList(ct, ct.PostUses, ct.PostUseExprs, envPost, st)
	for _, c := range ct.Ensures {
		if knownFalseClause(ct.Key, c.Label) {
			// a postcondition recorded as a known finding does not hold of the code: callers must not assume it
			continue
		}
		term, _, err := u.evalClauseBool(envPost, c)
		if err != nil {
			u.specErrors = append(u.specErrors, fmt.Sprintf("%s ensures %v", ct.Key, err))
			continue
		}
		u.ctx.assert("post:"+ct.Key+"."+c.Label, implies(st.reach, implies(inDomain, term)))
	}
	return packResults(resT, results)
}

type Options struct {
	Timeout    time.Duration
	NeedAgree  int
	Workers    int
	Only       func(o *Obligation) bool
	Vacuity    bool
	Verbose    bool
	DumpDir    string
	NoSolve    bool
}

// encodeUnit builds all obligations of root.
func encodeUnit(p *Program, db *ContractDB, root *ssa.Function) (res *UnitResult) {
	return encodeUnitMode(p, db, root, false)
}

// encodeUnitMode: with safetyOnly the functional contracts (requires, ensures, loop invariants, call-site assertions)
// of the root and of every function inlined into it are ignored: only the implicit obligations (index, slice, nil,
// conversion, map, division, make, explicit panic) are generated, for arbitrary well-typed inputs. Type invariants
// ("valid") and the contracts of contract-mode callees still apply. Used where hostile input lies outside the
// domain a functional contract assumes.
func encodeUnitMode(p *Program, db *ContractDB, root *ssa.Function, safetyOnly bool) (res *UnitResult) {
	t0 := time.Now()
	u := newUnit(p, db, root)
	if safetyOnly {
		u.safetyOnly = true
		u.rootKey += "!safety"
	}
	res = &UnitResult{Key: u.rootKey, unit: u}
	defer func() {
		res.EncodeSec = time.Since(t0).Seconds()
		if r := recover(); r != nil {
			if us, ok := r.(unsupported); ok {
				res.Rejected = us.msg
				return
			}
			panic(r)
		}
	}()
	f := u.newFrame(root, "")
	u.rootFrame = f
	st := &state{reach: "true", mem: u.entryMem.clone()}
	for _, prm := range root.Params {
		v := u.havocVal("in."+prm.Name(), prm.Type(), st.mem, "true")
		v.T = prm.Type()
		f.vals[prm] = v
		f.params = append(f.params, v)
		ls := leavesOf(prm.Type(), "elem")
		for i, l := range ls {
			// A1: input lengths are at most 2^40
			if l.Kind == "slice.cap" || l.Kind == "str.len" {
				u.ctx.assert("A1", le(v.S[i], "1099511627776"))
			}
			u.inputs = append(u.inputs, inputSym{Name: fmt.Sprintf("%s/%s", prm.Name(), l.Kind), Sym: v.S[i], Sort: l.Sort})
		}
	}
	for _, fv := range root.FreeVars {
		v := u.havocVal("free."+fv.Name(), fv.Type(), st.mem, "true")
		// a captured variable is a cell of the enclosing function: never nil, distinct from the other captured cells
		if _, isPtr := fv.Type().Underlying().(*types.Pointer); isPtr && len(v.S) == 1 {
			u.ctx.assert("freevar", not(eq(v.S[0], "0")))
			for _, w := range f.free {
				if len(w.S) == 1 {
					u.ctx.assert("freevar", not(eq(v.S[0], w.S[0])))
				}
			}
		}
		f.free = append(f.free, v)
	}
	ct := u.ctFor(u.rootKey)
	entry := &state{reach: "true", mem: st.mem.clone()}
	for i, prm := range root.Params {
		if t := u.validTerm(prm.Type(), f.params[i], entry, i == 0 && root.Signature.Recv() != nil); t != "true" {
			u.ctx.assert("valid:"+prm.Name(), t)
		}
	}
	if ct != nil {
		env := u.funcEnv(root, f.params, nil, entry, entry)
		env.assume = true
		for _, c := range ct.Requires {
			term, _, err := u.evalClauseBool(env, c)
			if err != nil {
				u.specErrors = append(u.specErrors, fmt.Sprintf("%s requires %v", u.rootKey, err))
				continue
			}
			u.ctx.assert("requires:"+c.Label, term)
		}
	}
	if ct != nil {
		u.assumeLemmas(root, ct, f.params, entry)
	}
	u.reqMark = u.ctx.mark()
	// vacuity guards: the preconditions are satisfiable, and every return statement is reachable under the
	// assumptions accumulated up to it. A cover is *refuted* by "unsat" (nothing is assumed from it afterwards).
	u.obls = append(u.obls, &Obligation{Name: u.rootKey + "/cover:entry", Kind: "cover", Label: "entry", Root: u.rootKey, Guard: "true", Cond: "false", Mark: u.ctx.mark(), Blk: -1})
	ret, results := f.run(st)
	for ri, r := range f.rets {
		o := &Obligation{Name: fmt.Sprintf("%s/cover:ret%d", u.rootKey, ri+1), Kind: "cover", Label: fmt.Sprintf("ret%d", ri+1), Root: u.rootKey, Guard: "true", Cond: not(r.reach), Mark: u.ctx.mark(), Blk: r.blk}
		if r.pos.IsValid() {
			p := u.prog.Fset.Position(r.pos)
			o.Pos = fmt.Sprintf("%s:%d", strings.TrimPrefix(p.Filename, u.prog.Repo+"/"), p.Line)
		}
		u.obls = append(u.obls, o)
	}
	if ct != nil {
		u.ctx.curBlk = -1
		// one obligation per clause and per return statement (smaller queries, precise diagnostics)
		for ri, r := range f.rets {
			rst := &state{reach: r.reach, mem: r.mem}
			env := u.funcEnv(root, f.params, r.vals, rst, entry)
			u.bindGhosts(env, root, ct, f, "root", rst)
			u.assumeLemmaList(ct, ct.PostUses, ct.PostUseExprs, env, rst)
			suffix := ""
			if len(f.rets) > 1 {
				suffix = fmt.Sprintf("@ret%d", ri+1)
			}
			for _, c := range ct.Ensures {
				term, quant, err := u.evalClauseBool(env, c)
				if err != nil {
					if ri == 0 {
						u.specErrors = append(u.specErrors, fmt.Sprintf("%s ensures %v", u.rootKey, err))
					}
					continue
				}
				o := u.oblige(f, rst, "ensures", c.Label+suffix, r.pos, term)
				o.Quant = quant
				o.Blk = r.blk
			}
		}
		_ = results
		if ct.HasMod || ct.Mode == "contract" {
			u.frameObligations(f, ct, entry, ret)
		}
	}
	res.Obls = u.obls
	res.SpecErrors = u.specErrors
	res.Notes = u.notes
	for k := range u.trusted {
		res.Trusted = append(res.Trusted, k)
	}
	for k := range u.inlined {
		res.Inlined = append(res.Inlined, k)
	}
	for k := range u.usedCtr {
		res.ByContract = append(res.ByContract, k)
	}
	for k := range u.usedLemmas {
		res.UsedLemmas = append(res.UsedLemmas, k)
	}
	sort.Strings(res.UsedLemmas)
	sort.Strings(res.Trusted)
	sort.Strings(res.Inlined)
	sort.Strings(res.ByContract)
	return res
}

// frameObligations: every heap cell that existed at entry and is outside the modifies set is unchanged.
func (u *Unit) frameObligations(f *Frame, ct *FuncContract, entry, ret *state) {
	env := u.funcEnv(f.fn, f.params, nil, entry, entry)
	ranges, err := u.modRanges(ct, env)
	if err != nil {
		u.specErrors = append(u.specErrors, fmt.Sprintf("%s %v", ct.Key, err))
		return
	}
	var sites []string
	for s := range ret.mem.arr {
		sites = append(sites, s)
	}
	sort.Strings(sites)
	for _, s := range sites {
		if strings.HasPrefix(s, "ghost.") || strings.HasPrefix(s, "iter.") {
			continue
		}
		srt := u.siteSort[s]
		m0 := u.arr(entry.mem, s, srt)
		mf := ret.mem.arr[s]
		if m0 == mf {
			continue
		}
		a := u.ctx.freshConst("frame.a", SInt)
		cond := implies(and(lt(a, entry.mem.alloc), not(inAny(ranges[s], a))), eq(sel(mf, a), sel(m0, a)))
		fo := u.oblige(f, ret, "frame", s, f.fn.Pos(), cond)
		fo.Blk = -1
	}
}

// ---------- solving ----------

func (u *Unit) script(o *Obligation) string { return u.scriptOpt(o, false) }

// scriptSliced keeps only the assumptions that are connected to the goal through non-hub symbols.
// Dropping assumptions is always sound for a proof attempt (unsat stays unsat).
func (u *Unit) scriptSliced(o *Obligation) string {
	items := u.ctx.items[:o.Mark]
	anc := u.ancestorBlocks(o.Blk)
	// symbol frequencies among asserts
	freq := map[string]int{}
	for i, it := range items {
		if it.kind == itAssert && relevantItem(&items[i], anc) {
			for _, s := range it.syms {
				if _, ok := u.ctx.names[s]; ok {
					freq[s]++
				}
			}
		}
	}
	isHub := func(s string) bool { return freq[s] > 12 }
	rel := map[string]bool{}
	var work []string
	var push func(syms []string, viaAssert bool)
	push = func(syms []string, viaAssert bool) {
		for _, s := range syms {
			if _, ok := u.ctx.names[s]; !ok || rel[s] {
				continue
			}
			rel[s] = true
			work = append(work, s)
			if _, ok := u.ctx.names[s+"!frame"]; ok && !rel[s+"!frame"] {
				rel[s+"!frame"] = true
				work = append(work, s+"!frame")
			}
		}
	}
	closeDefs := func() {
		for len(work) > 0 {
			s := work[len(work)-1]
			work = work[:len(work)-1]
			idx := u.ctx.names[s]
			if idx < len(items) && (items[idx].kind == itDefine || items[idx].kind == itRaw) {
				push(items[idx].syms, false)
			}
		}
	}
	push(symsOf(o.Guard), false)
	push(symsOf(o.Cond), false)
	closeDefs()
	included := make([]bool, len(items))
	for changed := true; changed; {
		changed = false
		for i, it := range items {
			if it.kind != itAssert || included[i] || !relevantItem(&items[i], anc) {
				continue
			}
			hit := false
			for _, s := range it.syms {
				if rel[s] && !isHub(s) {
					hit = true
					break
				}
			}
			if hit {
				included[i] = true
				changed = true
				push(it.syms, true)
				closeDefs()
			}
		}
	}
	var b strings.Builder
	for i, it := range items {
		switch it.kind {
		case itDecl, itDefine, itRaw:
			if it.name != "" && !rel[it.name] {
				continue
			}
		case itAssert:
			if !included[i] {
				continue
			}
		}
		b.WriteString(it.text)
		b.WriteByte('\n')
	}
	fmt.Fprintf(&b, "(assert (not %s))\n", implies(o.Guard, o.Cond))
	return b.String()
}

// scriptQF drops every quantified assumption: a relaxation used only to search for candidate counterexamples,
// which are then confirmed (or discarded) by replay on the real code.
func (u *Unit) scriptQF(o *Obligation) string { return u.scriptOpt(o, true) }

// ancestorBlocks: blocks of the root function from which block blk is reachable without back edges (and blk itself).
func (u *Unit) ancestorBlocks(blk int) map[int]bool {
	if u.root == nil || blk < 0 || blk >= len(u.root.Blocks) {
		return nil
	}
	u.ancMu.Lock()
	defer u.ancMu.Unlock()
	if u.ancCache == nil {
		u.ancCache = map[int]map[int]bool{}
	}
	if a, ok := u.ancCache[blk]; ok {
		return a
	}
	anc := map[int]bool{blk: true}
	work := []*ssa.BasicBlock{u.root.Blocks[blk]}
	for len(work) > 0 {
		x := work[len(work)-1]
		work = work[:len(work)-1]
		for _, p := range x.Preds {
			if isBackEdge(p, x) || anc[p.Index] {
				continue
			}
			anc[p.Index] = true
			work = append(work, p)
		}
	}
	u.ancCache[blk] = anc
	return anc
}

// relevantItem: assumptions created while encoding a block that cannot precede the obligation's block are irrelevant.
func relevantItem(it *item, anc map[int]bool) bool {
	if it.kind != itAssert || anc == nil || it.blk < 0 {
		return true
	}
	return anc[it.blk]
}

// lastArgsOf collects the distinct last arguments of applications of sym in text.
func lastArgsOf(text, sym string, out map[string]bool) {
	needle := "(" + sym + " "
	for i := 0; ; {
		j := strings.Index(text[i:], needle)
		if j < 0 {
			return
		}
		start := i + j
		// find the matching close paren
		depth := 0
		inq := false
		end := -1
		lastArgStart := -1
		for k := start; k < len(text); k++ {
			c := text[k]
			if c == '|' {
				inq = !inq
			}
			if inq {
				continue
			}
			if c == '(' {
				depth++
				if depth == 2 {
					lastArgStart = k
				}
			} else if c == ')' {
				depth--
				if depth == 0 {
					end = k
					break
				}
			} else if c == ' ' && depth == 1 {
				lastArgStart = k + 1
			}
		}
		if end < 0 {
			return
		}
		if lastArgStart > 0 && lastArgStart < end {
			out[strings.TrimSpace(text[lastArgStart:end])] = true
		}
		i = start + len(needle)
	}
}

// dropUselessFrames removes the frame axiom of a recursive spec function when the query applies the function to a
// single heap only (the axiom quantifies over arrays, which makes some solvers give up).
func dropUselessFrames(script string) string {
	if !strings.Contains(script, "(H1! ") {
		return script
	}
	lines := strings.Split(script, "\n")
	var out []string
	for _, ln := range lines {
		if strings.HasPrefix(ln, "(assert (forall ((f! Fuel) (g! Fuel)") && strings.Contains(ln, "(H1! ") {
			// the function symbol is the first "|spec:...|" in the pattern
			k := strings.Index(ln, "(= (|spec:")
			if k >= 0 {
				rest := ln[k+4:]
				e := strings.Index(rest[1:], "|")
				sym := rest[:e+2]
				heaps := map[string]bool{}
				for _, other := range lines {
					if other == ln || strings.HasPrefix(other, "(declare-fun "+sym) || strings.Contains(other, "(forall ((f! Fuel)") {
						continue
					}
					lastArgsOf(other, sym, heaps)
				}
				if len(heaps) < 2 {
					continue
				}
			}
		}
		out = append(out, ln)
	}
	return strings.Join(out, "\n")
}

func (u *Unit) scriptOpt(o *Obligation, dropQuant bool) string { return dropUselessFrames(u.scriptOpt0(o, dropQuant)) }

func (u *Unit) scriptOpt0(o *Obligation, dropQuant bool) string { return u.scriptOpt1(o, dropQuant, nil) }

func (u *Unit) scriptOpt1(o *Obligation, dropQuant bool, hide map[int]bool) string {
	var b strings.Builder
	items := u.ctx.items[:o.Mark]
	anc := u.ancestorBlocks(o.Blk)
	// cone of influence over definitions: keep all asserts, drop unused define/declare
	needed := map[string]bool{}
	var work []string
	push := func(syms []string) {
		for _, s := range syms {
			if _, ok := u.ctx.names[s]; ok && !needed[s] {
				needed[s] = true
				work = append(work, s)
				if _, ok := u.ctx.names[s+"!frame"]; ok && !needed[s+"!frame"] {
					needed[s+"!frame"] = true
					work = append(work, s+"!frame")
				}
			}
		}
	}
	push(symsOf(o.Guard))
	push(symsOf(o.Cond))
	for i := range items {
		if items[i].kind == itAssert && relevantItem(&items[i], anc) && !hide[i] {
			push(items[i].syms)
		}
	}
	for len(work) > 0 {
		s := work[len(work)-1]
		work = work[:len(work)-1]
		idx := u.ctx.names[s]
		if idx < len(u.ctx.items) {
			push(u.ctx.items[idx].syms)
		}
	}
	for i, it := range items {
		switch it.kind {
		case itDecl, itDefine, itRaw:
			if it.name != "" && !needed[it.name] {
				continue
			}
		case itAssert:
			if !relevantItem(&it, anc) || hide[i] {
				continue
			}
			if dropQuant && (strings.Contains(it.text, "(forall ") || strings.Contains(it.text, "(exists ")) {
				continue
			}
		}
		if dropQuant && it.kind == itRaw && it.qf != "" {
			b.WriteString(it.qf)
			b.WriteByte('\n')
			continue
		}
		if dropQuant && it.kind == itRaw && strings.Contains(it.text, "(forall ") {
			for _, line := range strings.Split(it.text, "\n") {
				if !strings.Contains(line, "(forall ") {
					b.WriteString(line)
					b.WriteByte('\n')
				}
			}
			continue
		}
		b.WriteString(it.text)
		b.WriteByte('\n')
	}
	fmt.Fprintf(&b, "(assert (not %s))\n", implies(o.Guard, o.Cond))
	return b.String()
}

// labelBase reduces an obligation or fact label to its clause name: "loop2.positive/1@b11" -> "positive".
func labelBase(l string) string {
	if i := strings.LastIndex(l, ":"); i >= 0 {
		l = l[i+1:]
	}
	if i := strings.LastIndex(l, "·"); i >= 0 {
		l = l[i+len("·"):]
	}
	if i := strings.Index(l, "@"); i >= 0 {
		l = l[:i]
	}
	if i := strings.Index(l, "/"); i >= 0 {
		l = l[:i]
	}
	if i := strings.LastIndex(l, "."); i >= 0 {
		l = l[i+1:]
	}
	return l
}

func isSpecFactTag(tag string) bool {
	for _, p := range []string{"inv:", "obl:", "requires:", "post:", "valid:", "lemma:"} {
		if strings.HasPrefix(tag, p) {
			return true
		}
	}
	return false
}

// scriptFocused hides every quantified specification fact (invariant, earlier obligation, requires, callee
// postcondition, lemma) whose clause name is neither the goal's own nor listed by a "focus" hint of the root contract.
// Everything else is kept. Returns "" when nothing would be hidden. Hiding assumptions is sound for a proof attempt.
func (u *Unit) scriptFocused(o *Obligation) string {
	keep := map[string]bool{labelBase(o.Label): true}
	if ct := u.ctFor(u.rootKey); ct != nil {
		for _, n := range ct.Focus[labelBase(o.Label)] {
			keep[n] = true
		}
	}
	hide := map[int]bool{}
	for i := range u.ctx.items[:o.Mark] {
		it := &u.ctx.items[i]
		if it.kind != itAssert || !isSpecFactTag(it.tag) {
			continue
		}
		if !strings.Contains(it.text, "(forall ") && !strings.Contains(it.text, "(exists ") && !strings.Contains(it.text, "spec:") {
			continue
		}
		if keep[labelBase(it.tag)] {
			continue
		}
		hide[i] = true
	}
	if len(hide) == 0 {
		return ""
	}
	return dropUselessFrames(u.scriptOpt1(o, false, hide))
}

func (u *Unit) inputSyms() []string {
	var out []string
	for _, in := range u.inputs {
		out = append(out, in.Sym)
	}
	out = append(out, "alloc0")
	return out
}

func solveUnit(res *UnitResult, opt Options) {
	if res.Rejected != "" || res.unit == nil {
		return
	}
	u := res.unit
	t0 := time.Now()
	var wg sync.WaitGroup
	sem := make(chan struct{}, opt.Workers)
	for _, o := range res.Obls {
		if opt.Only != nil && !opt.Only(o) {
			o.Res = SolveResult{Verdict: "skipped"}
			continue
		}
		if o.Cond == "true" {
			o.Res = SolveResult{Verdict: "unsat", Solver: "trivial", Agree: 3}
			continue
		}
		wg.Add(1)
		sem <- struct{}{}
		go func(o *Obligation) {
			defer wg.Done()
			defer func() { <-sem }()
			script := u.script(o)
			if o.Kind == "cover" {
				// "unsat" = unreachable / contradictory assumptions; anything else is fine
				r := solveQuick(script, opt.Timeout)
				if r.Verdict == "unknown" {
					qt := 3 * time.Second
					if opt.Timeout < qt {
						qt = opt.Timeout
					}
					r = solve(script, nil, qt, 1)
				}
				switch r.Verdict {
				case "unsat":
					r.Verdict = "vacuous"
				case "sat":
					r.Verdict = "unsat" // the guard did its job: reported as discharged
					r.Solver += " (reachable)"
				default:
					r.Verdict = "unsat"
					r.Solver = "undecided reachability (not refuted)"
				}
				r.Model = nil
				o.Res = r
				return
			}
			// Proof search, cheapest first. Every variant after the first only weakens the assumptions (ground
			// instances and bridge lemmas are consequences; hiding quantified facts and replacing bv2nat/int2bv by
			// uninterpreted functions lose information), so "unsat" of a variant is a proof of the obligation; "sat" of
			// a variant means nothing and is never reported.
			var spent float64
			try := func(s, how string, quick bool) bool {
				if s == "" {
					return false
				}
				var r1 SolveResult
				if quick {
					qt := 8 * time.Second
					if opt.Timeout < qt {
						qt = opt.Timeout
					}
					r1 = solve(s, nil, qt, opt.NeedAgree)
				} else {
					r1 = solve(s, nil, opt.Timeout, opt.NeedAgree)
				}
				spent += r1.Seconds
				if r1.Verdict == "unsat" {
					r1.Solver += how
					r1.Seconds = spent
					o.Res = r1
					return true
				}
				return false
			}
			quant := strings.Contains(script, "(forall ") || strings.Contains(script, "(exists ")
			done := false
			if stage, ok := strategyFor(o.Name); ok {
				// the stage of the proof search that decided this obligation last time (strategy.json): tried first, with
				// the full time limit. Only the order of the search changes: a proof is still an "unsat" of the same
				// query, and when the hint fails the whole ladder below runs as usual.
				if s := u.stageScript(o, script, stage); s != "" && try(s, stage+" (hinted)", false) {
					return
				}
			}
			if opt.NeedAgree <= 1 && quant {
				if r0 := solveQuick(script, opt.Timeout); r0.Verdict != "unknown" {
					o.Res = r0
					if r0.Verdict == "sat" {
						// get the model through the portfolio path below
						o.Res = solve(script, u.inputSyms(), opt.Timeout, opt.NeedAgree)
					}
					done = true
				} else {
					spent += r0.Seconds
					var fs string
					done = try(ginstScriptLevel(script, true, true, 0), " +ground-instances/uf/light", true)
					if !done {
						fs = u.scriptFocused(o)
						done = fs != "" && try(ginstScriptLevel(fs, true, true, 0), " +focused+ground-instances/uf/light", true)
					}
					if !done {
						done = fs != "" && try(ginstScriptOpt(fs, true, true), " +focused+ground-instances/uf", true)
					}
					if !done {
						done = try(ginstScriptOpt(script, true, true), " +ground-instances/uf", true)
					}
					if !done {
						done = try(ginstScript(script, false), " +instances", true)
					}
				}
			}
			if !done {
				o.Res = solve(script, u.inputSyms(), opt.Timeout, opt.NeedAgree)
				o.Res.Seconds += spent
				spent = o.Res.Seconds
			}
			if o.Res.Verdict == "unknown" && quant && opt.NeedAgree > 1 {
				// thorough tier: the cheap variants of the quick tier's second step, so that the deeper search is a
				// superset of the quick one (they are skipped above because the full race goes first here)
				fs := u.scriptFocused(o)
				_ = try(ginstScriptLevel(script, true, true, 0), " +ground-instances/uf/light", false) ||
					(fs != "" && try(ginstScriptLevel(fs, true, true, 0), " +focused+ground-instances/uf/light", false)) ||
					(fs != "" && try(ginstScriptOpt(fs, true, true), " +focused+ground-instances/uf", false))
			}
			if o.Res.Verdict == "unknown" && quant {
				if !try(ginstScriptOpt(script, true, true), " +ground-instances/uf", false) && !try(ginstScript(script, true), " +ground-instances", false) && !try(ginstScript(script, false), " +instances", false) {
					if fs := u.scriptFocused(o); fs != "" {
						if !try(ginstScriptOpt(fs, true, true), " +focused+ground-instances/uf", false) && !try(fs, " +focused", false) && !try(ginstScript(fs, true), " +focused+ground-instances", false) {
							try(ginstScript(fs, false), " +focused+instances", false)
						}
					}
				}
			}
			if o.Res.Verdict == "unknown" {
				// candidate counterexample search without quantified assumptions
				r2 := solve(u.scriptQF(o), u.inputSyms(), opt.Timeout, 1)
				if r2.Verdict == "sat" {
					r2.Solver = "qf-relaxation"
					r2.Output = "candidate model from the quantifier-free relaxation; full query: " + o.Res.Output
					o.Res = r2
				}
			}
		}(o)
	}
	wg.Wait()
	res.SolveSec = time.Since(t0).Seconds()
	learnStrategy(res.Obls)
}

var _ = token.NoPos


// assumeLemmas instantiates the lemmas named by "use name(args)" clauses: the lemma's parameters are bound to the
// argument values (evaluated in the entry state), its induction variable is universally quantified.
func (u *Unit) assumeLemmas(fn *ssa.Function, ct *FuncContract, params []Val, entry *state) {
	u.assumeLemmaList(ct, ct.Uses, ct.UseExprs, u.funcEnv(fn, params, nil, entry, entry), entry)
}

// ghostSite finds the value a ghost name stands for: an argument or a result of the only static call to the callee.
func ghostSite(fn *ssa.Function, g GhostDef) (ssa.Value, error) {
	var found ssa.Value
	n := 0
	for _, b := range fn.Blocks {
		for _, ins := range b.Instrs {
			c, ok := ins.(*ssa.Call)
			if !ok {
				continue
			}
			sc := c.Common().StaticCallee()
			if sc == nil || sc.Name() != g.Callee {
				continue
			}
			n++
			if g.Arg >= 0 {
				if g.Arg >= len(c.Common().Args) {
					return nil, fmt.Errorf("ghost %s: %s has no argument %d", g.Name, g.Callee, g.Arg)
				}
				found = c.Common().Args[g.Arg]
				continue
			}
			if _, tup := c.Type().(*types.Tuple); !tup {
				if g.Res != 0 {
					return nil, fmt.Errorf("ghost %s: %s has one result", g.Name, g.Callee)
				}
				found = c
				continue
			}
			found = nil
			for _, r := range *c.Referrers() {
				if ex, ok := r.(*ssa.Extract); ok && ex.Index == g.Res {
					found = ex
				}
			}
			if found == nil {
				return nil, fmt.Errorf("ghost %s: result %d of %s is not used", g.Name, g.Res, g.Callee)
			}
		}
	}
	if n != 1 {
		return nil, fmt.Errorf("ghost %s: %d static calls of %s (need exactly one)", g.Name, n, g.Callee)
	}
	return found, nil
}

// bindGhosts makes the ghost names of a contract visible in env. In the function itself (f != nil) a ghost is the value
// computed at its site (an arbitrary value on paths that do not pass the site, which only makes the proof harder); at a
// call site it is a fresh constant: the callee proved its postcondition for one particular value, the caller knows
// only that such a value exists.
func (u *Unit) bindGhosts(env *Env, fn *ssa.Function, ct *FuncContract, f *Frame, prefix string, st *state) {
	for _, g := range ct.Ghosts {
		if g.GhostOf != "" {
			if val, ok := u.calleeGhosts[g.Callee+"."+g.GhostOf]; ok && f != nil {
				env.bound[g.Name] = val
			} else {
				u.specErrors = append(u.specErrors, fmt.Sprintf("%s: ghost %s: no contract-mode call of %s with a ghost %s", ct.Key, g.Name, g.Callee, g.GhostOf))
			}
			continue
		}
		v, err := ghostSite(fn, g)
		if err != nil {
			u.specErrors = append(u.specErrors, fmt.Sprintf("%s: %v", ct.Key, err))
			continue
		}
		if f != nil {
			if c, ok := v.(*ssa.Const); ok {
				env.bound[g.Name] = u.constVal(c)
				continue
			}
			if val, ok := f.vals[v]; ok {
				env.bound[g.Name] = val
				continue
			}
			if p, ok := v.(*ssa.Parameter); ok {
				env.bound[g.Name] = f.val(p)
				continue
			}
		}
		hv := u.havocValSafe(prefix+".ghost."+g.Name, v.Type(), st)
		env.bound[g.Name] = *hv
		if f == nil {
			if u.calleeGhosts == nil {
				u.calleeGhosts = map[string]Val{}
			}
			u.calleeGhosts[fn.Name()+"."+g.Name] = *hv
		}
	}
}

func (u *Unit) assumeLemmaList(ct *FuncContract, uses []string, useExprs []ast.Expr, env *Env, entry *state) {
	for i, e := range useExprs {
		call, ok := e.(*ast.CallExpr)
		if !ok {
			u.specErrors = append(u.specErrors, fmt.Sprintf("%s: use %s: expected name(args)", ct.Key, uses[i]))
			continue
		}
		lname := ""
		switch fx := call.Fun.(type) {
		case *ast.Ident:
			lname = ct.Pkg + "." + fx.Name
		case *ast.SelectorExpr:
			// a lemma of another package: pkg.name
			if x, ok := fx.X.(*ast.Ident); ok {
				lname = x.Name + "." + fx.Sel.Name
			}
		}
		lm := u.db.Lemmas[lname]
		if lm == nil {
			u.specErrors = append(u.specErrors, fmt.Sprintf("%s: unknown lemma %s", ct.Key, uses[i]))
			continue
		}
		func() {
			defer func() {
				if r := recover(); r != nil {
					u.specErrors = append(u.specErrors, fmt.Sprintf("%s: use %s: %v", ct.Key, uses[i], r))
				}
			}()
			// bind lemma parameters (all except the induction variable) to the arguments
			var nonInd []specParam
			for _, p := range lm.Params {
				if p.Name != lm.IndVar {
					nonInd = append(nonInd, p)
				}
			}
			if len(call.Args) != len(nonInd) {
				specErrf("lemma %s expects %d arguments", lm.Name, len(nonInd))
			}
			lenv := &Env{u: u, st: entry, old: entry, pkg: env.pkg, bound: map[string]Val{}}
			for k, p := range nonInd {
				lenv.bound[p.Name] = coerce(env.eval(call.Args[k]), lenv.specType(lm.Pkg, p.Type))
			}
			qv := quoteSym("q!" + lm.IndVar)
			lenv.bound[lm.IndVar] = intVal(qv)
			body := lenv.evalBool(lm.Stmt)
			if lm.Trigger != nil {
				tr := lenv.eval(lm.Trigger)
				u.ctx.assert("lemma:"+lm.Name, fmt.Sprintf("(forall ((%s Int)) (! %s :pattern (%s)))", qv, body, tr.S[0]))
			} else {
				u.ctx.assert("lemma:"+lm.Name, fmt.Sprintf("(forall ((%s Int)) %s)", qv, body))
			}
			u.usedLemmas[lm.Pkg+"."+lm.Name] = true
		}()
	}
}

// encodeLemma proves a lemma by induction on its induction variable: base (k <= from) and step (k >= from, P(k) |- P(k+1)).
func encodeLemma(p *Program, db *ContractDB, key string) *UnitResult {
	lm := db.Lemmas[key]
	res := &UnitResult{Key: "lemma:" + key}
	if lm == nil {
		res.Rejected = "no such lemma"
		return res
	}
	u := newUnit(p, db, nil)
	u.rootKey = "lemma:" + key
	res.unit = u
	defer func() {
		if r := recover(); r != nil {
			res.Rejected = fmt.Sprint(r)
		}
	}()
	var pkg *types.Package
	for _, sp := range p.SSA.AllPackages() {
		if strings.HasPrefix(sp.Pkg.Path(), modRoot) && shortPkg(sp.Pkg.Path()) == lm.Pkg {
			pkg = sp.Pkg
		}
	}
	st := &state{reach: "true", mem: u.entryMem.clone()}
	env := &Env{u: u, st: st, old: st, pkg: pkg, bound: map[string]Val{}}
	k := ""
	for _, prm := range lm.Params {
		t := env.specType(lm.Pkg, prm.Type)
		v := u.havocVal("lm."+prm.Name, t, st.mem, "true")
		env.bound[prm.Name] = v
		if prm.Name == lm.IndVar {
			k = v.S[0]
		}
	}
	if k == "" {
		res.Rejected = "lemma has no induction variable"
		return res
	}
	from := lm.From
	if from == "" {
		from = "0"
	}
	fe, err := parseSpecExpr(from)
	if err != nil {
		res.Rejected = "bad induction base"
		return res
	}
	lo := env.evalInt(fe)
	pk := env.evalBool(lm.Stmt)
	// base
	base := &state{reach: u.ctx.def("lm.base", SBool, le(k, lo)), mem: st.mem}
	o := u.oblige(nil, base, "lemma", lm.Name+"/base", 0, pk)
	o.Quant = true
	// the obligation above was added as an assumption; that is harmless for the step (it is implied by the hypothesis there)
	stepEnv := *env
	stepEnv.bound = map[string]Val{}
	for n, v := range env.bound {
		stepEnv.bound[n] = v
	}
	stepEnv.bound[lm.IndVar] = intVal(add(k, "1"))
	pk1 := stepEnv.evalBool(lm.Stmt)
	step := &state{reach: u.ctx.def("lm.step", SBool, and(le(lo, k), pk)), mem: st.mem}
	o2 := u.oblige(nil, step, "lemma", lm.Name+"/step", 0, pk1)
	o2.Quant = true
	res.Obls = u.obls
	res.SpecErrors = u.specErrors
	return res
}

// ctFor returns the contract that applies to a function verified as root or inlined in this unit.
func (u *Unit) ctFor(key string) *FuncContract {
	key = strings.TrimSuffix(key, "!safety")
	ct := u.db.forFunc(key)
	if u.safetyOnly && ct != nil && ct.Mode != "contract" && ct.Mode != "trusted" {
		// the root keeps the input-validity preconditions labelled for the no-panic property ("C10." / "safe.")
		if key == strings.TrimSuffix(u.rootKey, "!safety") {
			var keep []Clause
			for _, c := range ct.Requires {
				if strings.HasPrefix(c.Label, "C10.") || strings.HasPrefix(c.Label, "safe.") {
					keep = append(keep, c)
				}
			}
			if len(keep) > 0 {
				return &FuncContract{Key: ct.Key, Pkg: ct.Pkg, Mode: ct.Mode, Requires: keep, File: ct.File, Line: ct.Line}
			}
		}
		return nil
	}
	return ct
}

var knownFalseOnce sync.Once
var knownFalse map[string]bool

// knownFalseClause: "<func key>/ensures:<label>" (with or without a @retN suffix) is listed as a known finding.
func knownFalseClause(key, label string) bool {
	knownFalseOnce.Do(func() {
		knownFalse = map[string]bool{}
		for _, k := range loadKnownFindings() {
			if k.Status != "known" {
				continue
			}
			if i := strings.Index(k.Obligation, "/ensures:"); i >= 0 {
				l := k.Obligation[i+len("/ensures:"):]
				if j := strings.Index(l, "@"); j >= 0 {
					l = l[:j]
				}
				if j := strings.Index(l, "/"); j >= 0 {
					l = l[:j]
				}
				knownFalse[k.Obligation[:i]+"\x00"+l] = true
			}
		}
	})
	return knownFalse[key+"\x00"+label]
}

// stageScript builds the query variant named by a stage label of the proof search ("" = the full script).
func (u *Unit) stageScript(o *Obligation, script, stage string) string {
	stage = strings.TrimSuffix(stage, " (hinted)")
	focused := strings.HasPrefix(stage, " +focused")
	base := script
	if focused {
		base = u.scriptFocused(o)
		if base == "" {
			return ""
		}
		stage = " +" + strings.TrimPrefix(strings.TrimPrefix(stage, " +focused"), "+")
	}
	switch stage {
	case "", " +":
		return base
	case " +ground-instances/uf/light":
		return ginstScriptLevel(base, true, true, 0)
	case " +ground-instances/uf":
		return ginstScriptOpt(base, true, true)
	case " +ground-instances":
		return ginstScript(base, true)
	case " +instances":
		return ginstScript(base, false)
	}
	return ""
}

var (
	strategyOnce sync.Once
	strategyMap  map[string]string
	strategyMu   sync.Mutex
	strategyNew  = map[string]string{}
)

// strategyFor: proof-search hints recorded by "GOVC_LEARN=1 govc check" in /verif/strategy.json (obligation -> stage).
func strategyFor(name string) (string, bool) {
	strategyOnce.Do(func() {
		strategyMap = map[string]string{}
		if os.Getenv("GOVC_NOHINTS") != "" {
			return
		}
		if data, err := os.ReadFile(filepath.Join(verifRoot(), "strategy.json")); err == nil {
			json.Unmarshal(data, &strategyMap)
		}
	})
	st, ok := strategyMap[name]
	return st, ok
}

// learnStrategy records the deciding stage of slow proofs (learn mode only).
func learnStrategy(obls []*Obligation) {
	if os.Getenv("GOVC_LEARN") == "" {
		return
	}
	strategyMu.Lock()
	defer strategyMu.Unlock()
	for _, o := range obls {
		if o.Res.Verdict != "unsat" || o.Kind == "cover" || o.Res.Seconds < 4 {
			continue
		}
		stage := ""
		if i := strings.Index(o.Res.Solver, " +"); i >= 0 {
			stage = strings.TrimSuffix(o.Res.Solver[i:], " (hinted)")
		}
		strategyNew[o.Name] = stage
	}
}

func saveStrategy() {
	if os.Getenv("GOVC_LEARN") == "" {
		return
	}
	strategyFor("")
	strategyMu.Lock()
	defer strategyMu.Unlock()
	for k, v := range strategyNew {
		strategyMap[k] = v
	}
	data, _ := json.MarshalIndent(strategyMap, "", " ")
	os.WriteFile(filepath.Join(verifRoot(), "strategy.json"), append(data, '\n'), 0o644)
}

func shortPkgOf(env *Env) string {
	if env.pkg != nil {
		return shortPkg(env.pkg.Path())
	}
	return ""
}
