package main

import (
	"sync"
	"fmt"
	"go/constant"
	"go/token"
	"go/types"
	"math/big"
	"sort"
	"strings"

	"golang.org/x/tools/go/ssa"
)

// Val is a flattened symbolic Go value.
type Val struct {
	T    types.Type
	S    []string // one SMT term per leaf slot
	Hint string   // for pointers to non-struct values: site hint of the pointee ("" = elem)

	Fn      *ssa.Function // statically known function value / closure
	Binds   []Val         // closure bindings
	DynT    types.Type    // statically known dynamic type of an interface value
	DynV    *Val          // its payload
	ConstS  *string       // known constant string content
	IsConst bool
	K       *big.Int // untyped integer constant (specifications)
	Addr    string   // address the value was loaded from (specifications; for modifies clauses)
	AddrHint string
	KeyID    string // string-typed bound variable ranging over map keys: its identity term (specifications)
}

// Mem is a version of the heap.
type Mem struct {
	arr   map[string]string
	wm    map[string]string // per site: value of the allocation pointer when the array version was created
	alloc string
}

func (m *Mem) clone() *Mem {
	n := &Mem{arr: make(map[string]string, len(m.arr)), wm: make(map[string]string, len(m.wm)), alloc: m.alloc}
	for k, v := range m.arr {
		n.arr[k] = v
	}
	for k, v := range m.wm {
		n.wm[k] = v
	}
	return n
}

// putArr installs a new version of a site's array; pointers stored in it were valid at the current allocation pointer.
func (u *Unit) putArr(m *Mem, site, term string) {
	m.arr[site] = term
	if m.wm == nil {
		m.wm = map[string]string{}
	}
	m.wm[site] = m.alloc
}

// limitOf is the allocation watermark below which every pointer stored in the current version of site lies.
func (u *Unit) limitOf(m *Mem, site string) string {
	if _, written := m.arr[site]; !written {
		return u.entryMem.alloc
	}
	if w, ok := m.wm[site]; ok {
		return w
	}
	return m.alloc
}

type Obligation struct {
	Name   string
	Kind   string // bounds, overread, nil, div0, pre, ensures, inv-est, inv-pres, term, assert, unsupported, panic, arith, frame, ...
	Label  string
	Root   string
	Fn     string
	Pos    string
	Guard  string
	Cond   string
	Mark   int // ctx item count when issued
	Props  []string
	Quant  bool // involves quantifiers/spec functions
	Blk    int  // root-function block the obligation belongs to (-1: none)
	Res    SolveResult
	Inputs []string
	Note   string
}

// Unit is the verification of one root function.
type Unit struct {
	prog      *Program
	root      *ssa.Function
	rootKey   string
	ctx       *Ctx
	obls      []*Obligation
	db        *ContractDB
	siteSort  map[string]string
	m0        map[string]string // site -> initial array symbol
	nextInst  int
	depth     int
	notes     []string
	abstract  []string
	inlined   map[string]bool
	usedCtr   map[string]bool
	callStack []*ssa.Function
	globals   map[string]string
	strConsts map[string]string
	typeIDs   map[string]int
	errIDs    map[string]string
	rootFrame *Frame
	entryMem  *Mem
	inputs    []inputSym
	ordCache  map[*ssa.Function]map[ssa.Instruction]map[string]int
	trusted   map[string]bool
	specDone  map[string]bool
	specDefs  map[string]*specDef
	noAssume  bool
	specErrors []string
	reqMark    int
	usedLemmas map[string]bool
	typingInst map[string]bool // typing-axiom instances already asserted for specification loads
	calleeGhosts map[string]Val // ghosts of contract-mode callees, "Callee.name" (last call)
	ancCache   map[int]map[int]bool
	ancMu      sync.Mutex
	safetyOnly bool
	strKeyDecl bool
	strKeys    []strKeyRec
	noFrameAxioms bool
}

type inputSym struct {
	Name string // Go-level description
	Sym  string
	Sort string
}

type state struct {
	reach string
	mem   *Mem
}

type blockOut struct {
	reach string
	mem   *Mem
	cond  []string // condition for each successor edge
}

type retInfo struct {
	reach string
	mem   *Mem
	vals  []Val
	pos   token.Pos
	blk   int
}

type Frame struct {
	u       *Unit
	fn      *ssa.Function
	key     string
	prefix  string
	chain   string // obligation naming context ("" for root)
	vals    map[ssa.Value]Val
	outs    map[*ssa.BasicBlock]*blockOut
	rets    []retInfo
	params  []Val
	free    []Val
	allocs  map[token.Pos]*ssa.Alloc
	entry   *Mem
	entryR  string
	loops   map[*ssa.BasicBlock]*loopInfo
	backSrc map[*ssa.BasicBlock][]*ssa.BasicBlock // block -> headers it has back edges to
	ct      *FuncContract
	ords    map[ssa.Instruction]map[string]int
	defers  []deferred
	atBlock *ssa.BasicBlock // program point for variable lookup in call-site assertions
	atIdx   int
	callOrd map[string]int
}

type deferred struct {
	builtin *ssa.Builtin // deferred builtin call (close): executed through the builtin path with the recorded call
	fn    *ssa.Function
	args  []Val
	binds []Val
	guard string
	ins   ssa.Instruction
}

func (f *Frame) loopDepthOf(b *ssa.BasicBlock) int {
	n := 0
	for _, li := range f.loops {
		if li.body[b] {
			n++
		}
	}
	return n
}

type loopInfo struct {
	header  *ssa.BasicBlock
	body    map[*ssa.BasicBlock]bool
	ordinal int
	phiHav  map[*ssa.Phi]Val
	memHead *Mem
	entryM  *Mem
	reachE  string
	variant string // value of the variant at the header (havoc state)
	invs    []LoopClause
	autoVariant func(f *Frame, from *ssa.BasicBlock) string
	autoNote    string
	autoV0      func(f *Frame) string
	autos       []autoInv
	entryPhis   map[*ssa.Phi]Val
}

func (u *Unit) sortOfSite(site, sort string) {
	if s, ok := u.siteSort[site]; ok && s != sort {
		panic(fmt.Sprintf("site %s sort clash %s vs %s", site, s, sort))
	}
	u.siteSort[site] = sort
}

func (u *Unit) arr(m *Mem, site, sort string) string {
	if a, ok := m.arr[site]; ok {
		return a
	}
	if a, ok := u.m0[site]; ok {
		return a
	}
	u.sortOfSite(site, sort)
	name := quoteSym("M0:" + site)
	save := u.ctx.curBlk
	u.ctx.curBlk = -1
	u.ctx.declare(name, SArr(SInt, sort))
	u.typingAxiom(name, site, u.entryMem.alloc)
	u.ctx.curBlk = save
	u.m0[site] = name
	return name
}

// typingAxiom: every pointer stored in (this version of) a heap site is nil or points below the given allocation mark.
// This is the quantified form of the well-typedness assumption made at loads; specifications that quantify over the
// heap (representation invariants) need it.
func (u *Unit) typingAxiom(arr, site, limit string) {
	if l, ok := siteKind[site]; ok && l.Kind == "ptr" {
		sz := 1
		if pt, ok := l.T.Underlying().(*types.Pointer); ok {
			sz = safeSizeOf(pt.Elem())
		}
		// only cells that exist in this version of the heap: cells at or above the allocation mark are described by
		// whoever allocates them later (a callee's fresh objects may live in the same array version)
		u.ctx.assert("typing", fmt.Sprintf("(forall ((a! Int)) (! (=> (< a! %s) (or (= (select %s a!) 0) (and (<= 1 (select %s a!)) (<= (+ (select %s a!) %d) %s)))) :pattern ((select %s a!))))", limit, arr, arr, arr, sz, limit, arr))
		return
	}
	if strings.HasPrefix(site, "map.") && strings.Contains(site, ".val#") {
		if mv, ok := mapValKind[site]; ok && mv.Kind == "ptr" {
			sz := 1
			if pt, ok := mv.T.Underlying().(*types.Pointer); ok {
				sz = safeSizeOf(pt.Elem())
			}
			ks := mapKeySort[site]
			u.ctx.assert("typing", fmt.Sprintf("(forall ((r! Int) (k! %s)) (! (=> (< r! %s) (or (= (select (select %s r!) k!) 0) (and (<= 1 (select (select %s r!) k!)) (<= (+ (select (select %s r!) k!) %d) %s)))) :pattern ((select (select %s r!) k!))))", ks, limit, arr, arr, arr, sz, limit, arr))
		}
	}
}

var mapValKind = map[string]Leaf{}
var mapKeySort = map[string]string{}

func (u *Unit) setArr(m *Mem, site, sort, term string) {
	u.sortOfSite(site, sort)
	u.putArr(m, site, u.ctx.def("M:"+site, SArr(SInt, sort), term))
}

// typingFact returns the well-typedness assumption for a loaded/havocked value.
func (u *Unit) typingFact(v Val, m *Mem) string { return u.typingFactLim(v, func(int) string { return m.alloc }) }

func (u *Unit) typingFactLim(v Val, limit func(leaf int) string) string {
	ls := leavesOf(v.T, "elem")
	var fs []string
	for i, l := range ls {
		t := v.S[i]
		m := struct{ alloc string }{limit(i)}
		switch l.Kind {
		case "ptr":
			sz := 1
			if pt, ok := l.T.Underlying().(*types.Pointer); ok {
				sz = safeSizeOf(pt.Elem())
			}
			fs = append(fs, or(eq(t, "0"), and(le("1", t), le(add(t, intLit(int64(sz))), m.alloc))))
		case "slice.ptr":
			p, n, c := v.S[i], v.S[i+1], v.S[i+2]
			stride := 1
			if st, ok := l.T.Underlying().(*types.Slice); ok {
				stride = safeStride(st.Elem())
			}
			fs = append(fs, le("0", n), le(n, c), le(c, "281474976710656"), le("0", p),
				or(eq(c, "0"), and(le("1", p), le(add(p, mul(c, intLit(int64(stride)))), m.alloc))))
		case "str.ptr":
			p, n := v.S[i], v.S[i+1]
			fs = append(fs, le("0", n), le(n, "281474976710656"), le("0", p), or(eq(n, "0"), and(le("1", p), le(add(p, n), m.alloc))))
		case "map", "chan", "func":
			fs = append(fs, le("0", t), lt(t, m.alloc))
		case "iface.type":
			fs = append(fs, le("0", t), le("0", v.S[i+1]), lt(v.S[i+1], m.alloc))
		case "int":
			fs = append(fs, le("(- 9223372036854775808)", t), le(t, "9223372036854775807"))
		}
	}
	return and(fs...)
}

func safeSizeOf(t types.Type) (n int) {
	defer func() {
		if r := recover(); r != nil {
			if _, ok := r.(unsupported); ok {
				n = 1
				return
			}
			panic(r)
		}
	}()
	return sizeOf(t)
}
func safeStride(t types.Type) (n int) {
	defer func() {
		if r := recover(); r != nil {
			if _, ok := r.(unsupported); ok {
				n = 1
				return
			}
			panic(r)
		}
	}()
	return elemStride(t)
}

// load reads a value of type t at address addr.
func (u *Unit) load(st *state, addr string, t types.Type, hint string, assume bool) Val {
	if hint == "" {
		hint = "elem"
	}
	ls := leavesOf(t, hint)
	v := Val{T: t, S: make([]string, len(ls))}
	for i, l := range ls {
		v.S[i] = sel(u.arr(st.mem, l.Site, l.Sort), add(addr, intLit(int64(l.Off))))
	}
	if assume && !u.noAssume {
		lim := func(i int) string { return u.limitOf(st.mem, ls[i].Site) }
		if f := u.typingFactLim(v, lim); f != "true" {
			// name the loaded slots to keep the fact small
			for i := range v.S {
				v.S[i] = u.ctx.def("ld", ls[i].Sort, v.S[i])
			}
			u.ctx.assert("typing", implies(st.reach, u.typingFactLim(v, lim)))
		}
	}
	return v
}

func (u *Unit) store(st *state, addr string, t types.Type, hint string, v Val) {
	if hint == "" {
		hint = "elem"
	}
	ls := leavesOf(t, hint)
	if len(ls) != len(v.S) {
		panic(fmt.Sprintf("store: leaf mismatch %s: %d vs %d", t, len(ls), len(v.S)))
	}
	for i, l := range ls {
		a := u.arr(st.mem, l.Site, l.Sort)
		u.setArr(st.mem, l.Site, l.Sort, store(a, add(addr, intLit(int64(l.Off))), v.S[i]))
	}
}

func (u *Unit) zeroVal(t types.Type) Val {
	ls := leavesOf(t, "elem")
	v := Val{T: t, S: make([]string, len(ls))}
	for i, l := range ls {
		v.S[i] = zeroOf(l.Sort)
	}
	return v
}

func (u *Unit) havocVal(prefix string, t types.Type, m *Mem, reach string) Val {
	ls := leavesOf(t, "elem")
	v := Val{T: t, S: make([]string, len(ls))}
	for i, l := range ls {
		v.S[i] = u.ctx.freshConst(prefix, l.Sort)
	}
	if f := u.typingFact(v, m); f != "true" {
		u.ctx.assert("typing", implies(reach, f))
	}
	return v
}

// alloc reserves n address units and returns the base address.
func (u *Unit) alloc(st *state, n string) string {
	p := st.mem.alloc
	st.mem.alloc = u.ctx.def("alloc", SInt, add(p, n))
	return p
}

func (u *Unit) allocZero(st *state, t types.Type) string {
	sz := sizeOf(t)
	p := u.alloc(st, intLit(int64(sz)))
	u.store(st, p, t, "elem", u.zeroVal(t))
	if isBytesBuffer(t) {
		u.bufInit(st, p)
	}
	return p
}

// globalAssert records a fact that does not depend on the block being encoded.
func (u *Unit) globalAssert(tag, body string) {
	save := u.ctx.curBlk
	u.ctx.curBlk = -1
	u.ctx.assert(tag, body)
	u.ctx.curBlk = save
}

// ---------- obligations ----------

func (u *Unit) oblige(f *Frame, st *state, kind, label string, pos token.Pos, cond string) *Obligation {
	name := u.rootKey + "/" + kind + ":"
	if f != nil && f.chain != "" {
		name += f.chain + "·"
	}
	name += label
	o := &Obligation{Name: name, Kind: kind, Label: label, Root: u.rootKey, Guard: st.reach, Cond: cond}
	if f != nil {
		o.Fn = f.key
	}
	if pos.IsValid() && u.prog != nil {
		p := u.prog.Fset.Position(pos)
		o.Pos = fmt.Sprintf("%s:%d", strings.TrimPrefix(p.Filename, u.prog.Repo+"/"), p.Line)
	}
	o.Mark = u.ctx.mark()
	o.Blk = u.ctx.curBlk
	u.obls = append(u.obls, o)
	// later obligations may assume this one held (execution would have stopped)
	u.ctx.assert("obl:"+name, implies(st.reach, cond))
	return o
}

func (f *Frame) ordLabel(ins ssa.Instruction, kind string) string {
	if m, ok := f.ords[ins]; ok {
		if n, ok := m[kind]; ok {
			return fmt.Sprintf("#%d", n)
		}
	}
	return "#?"
}

// instruction ordinals per obligation kind, in source order of blocks
func computeOrdinals(fn *ssa.Function) map[ssa.Instruction]map[string]int {
	ords := map[ssa.Instruction]map[string]int{}
	ctr := map[string]int{}
	set := func(ins ssa.Instruction, kinds ...string) {
		m := map[string]int{}
		for _, k := range kinds {
			ctr[k]++
			m[k] = ctr[k]
		}
		ords[ins] = m
	}
	for _, b := range fn.Blocks {
		for _, ins := range b.Instrs {
			switch x := ins.(type) {
			case *ssa.IndexAddr, *ssa.Index:
				set(ins, "bounds", "nil")
			case *ssa.Slice:
				set(ins, "bounds", "overread", "nil")
			case *ssa.UnOp:
				if x.Op == token.MUL {
					set(ins, "nil")
				} else if x.Op == token.SUB {
					set(ins, "arith")
				}
			case *ssa.Store:
				set(ins, "nil")
			case *ssa.FieldAddr:
				set(ins, "nil")
			case *ssa.BinOp:
				set(ins, "div0", "arith", "shift")
			case *ssa.Convert:
				set(ins, "conv")
			case *ssa.SliceToArrayPointer:
				set(ins, "conv")
			case *ssa.TypeAssert:
				set(ins, "typeassert")
			case *ssa.MapUpdate:
				set(ins, "mapnil")
			case *ssa.Panic:
				set(ins, "panic")
			case *ssa.MakeSlice:
				set(ins, "makeslice")
			case *ssa.Call:
				set(ins, "call", "unsupported", "nil")
			case *ssa.Lookup:
				set(ins, "bounds")
			default:
				set(ins, "unsupported")
			}
		}
	}
	return ords
}

// ---------- frames ----------

func (u *Unit) newFrame(fn *ssa.Function, chain string) *Frame {
	u.nextInst++
	f := &Frame{u: u, fn: fn, key: funcKey(fn), prefix: fmt.Sprintf("f%d", u.nextInst), chain: chain,
		vals: map[ssa.Value]Val{}, outs: map[*ssa.BasicBlock]*blockOut{}, loops: map[*ssa.BasicBlock]*loopInfo{}, backSrc: map[*ssa.BasicBlock][]*ssa.BasicBlock{}}
	if u.ordCache[fn] == nil {
		u.ordCache[fn] = computeOrdinals(fn)
	}
	f.ords = u.ordCache[fn]
	f.ct = u.ctFor(f.key)
	return f
}

func (f *Frame) name(v ssa.Value) string {
	return fmt.Sprintf("%s.%s", f.prefix, v.Name())
}

func (f *Frame) bind(v ssa.Value, val Val) {
	// name each slot
	ls := leavesOf(v.Type(), "elem")
	if len(ls) != len(val.S) {
		panic(fmt.Sprintf("bind %s: %s has %d leaves, value has %d (%s)", f.key, v.Type(), len(ls), len(val.S), v.Name()))
	}
	for i := range val.S {
		if !isAtomic(val.S[i]) {
			nm := quoteSym(fmt.Sprintf("%s.%s", f.name(v), slotSuffix(i, len(val.S))))
			val.S[i] = f.u.ctx.define(nm, ls[i].Sort, val.S[i])
		}
	}
	val.T = v.Type()
	f.vals[v] = val
}

func slotSuffix(i, n int) string {
	if n == 1 {
		return "v"
	}
	return fmt.Sprintf("s%d", i)
}

func (f *Frame) val(v ssa.Value) Val {
	switch x := v.(type) {
	case *ssa.Const:
		return f.u.constVal(x)
	case *ssa.Function:
		return Val{T: x.Type(), S: []string{"1"}, Fn: x}
	case *ssa.Global:
		return f.u.globalAddr(x)
	case *ssa.Builtin:
		return Val{T: x.Type(), S: []string{"1"}}
	case *ssa.FreeVar:
		for i, fv := range f.fn.FreeVars {
			if fv == x {
				return f.free[i]
			}
		}
	}
	if val, ok := f.vals[v]; ok {
		return val
	}
	panic(fmt.Sprintf("%s: value %s (%T) not yet defined", f.key, v.Name(), v))
}

func (u *Unit) constVal(c *ssa.Const) Val {
	t := c.Type()
	if c.Value == nil {
		z := u.zeroVal(t)
		z.IsConst = true
		return z
	}
	switch b := t.Underlying().(type) {
	case *types.Basic:
		switch {
		case b.Info()&types.IsBoolean != 0:
			if constant.BoolVal(c.Value) {
				return Val{T: t, S: []string{"true"}, IsConst: true}
			}
			return Val{T: t, S: []string{"false"}, IsConst: true}
		case b.Info()&types.IsString != 0:
			s := constant.StringVal(c.Value)
			return u.strConst(t, s)
		case b.Info()&types.IsInteger != 0:
			n, ok := constant.Val(constant.ToInt(c.Value)).(*big.Int)
			if !ok {
				i64, _ := constant.Int64Val(constant.ToInt(c.Value))
				n = big.NewInt(i64)
			}
			sort, _ := intSort(b)
			if sort == SInt {
				return Val{T: t, S: []string{bigIntLit(n)}, IsConst: true}
			}
			return Val{T: t, S: []string{bvLit(n, bvWidth(sort))}, IsConst: true}
		case b.Info()&types.IsFloat != 0:
			return Val{T: t, S: []string{u.ctx.freshConst("float", SBV(64))}}
		}
	}
	unsupportedf("constant %s of type %s", c, t)
	return Val{}
}

// strConst places a constant string in the static region of the "str" site.
func (u *Unit) strConst(t types.Type, s string) Val {
	if t == nil {
		t = types.Typ[types.String]
	}
	if len(s) == 0 {
		return Val{T: t, S: []string{"0", "0"}, ConstS: &s, IsConst: true}
	}
	if a, ok := u.strConsts[s]; ok {
		return Val{T: t, S: []string{a, intLit(int64(len(s)))}, ConstS: &s, IsConst: true}
	}
	a := u.ctx.freshConst("strlit", SInt)
	u.strConsts[s] = a
	m0 := u.arr(u.entryMem, strSite, SBV(8))
	fs := []string{le("1", a), le(add(a, intLit(int64(len(s)))), u.entryMem.alloc)}
	if len(s) <= 64 {
		for i := 0; i < len(s); i++ {
			fs = append(fs, eq(sel(m0, add(a, intLit(int64(i)))), bvLitU(uint64(s[i]), 8)))
		}
	}
	u.globalAssert("strlit", and(fs...))
	return Val{T: t, S: []string{a, intLit(int64(len(s)))}, ConstS: &s, IsConst: true}
}

const strSite = "str#0"

func (u *Unit) globalAddr(g *ssa.Global) Val {
	key := g.Pkg.Pkg.Path() + "." + g.Name()
	if a, ok := u.globals[key]; ok {
		return Val{T: g.Type(), S: []string{a}, Hint: "field:global." + shortPkg(g.Pkg.Pkg.Path()) + "." + g.Name()}
	}
	a := u.ctx.freshConst("glob:"+g.Name(), SInt)
	u.globals[key] = a
	elem := g.Type().(*types.Pointer).Elem()
	u.globalAssert("global", and(le("1", a), le(add(a, intLit(int64(safeSizeOf(elem)))), u.entryMem.alloc)))
	return Val{T: g.Type(), S: []string{a}, Hint: "field:global." + shortPkg(g.Pkg.Pkg.Path()) + "." + g.Name()}
}

// ---------- CFG helpers ----------

func isBackEdge(from, to *ssa.BasicBlock) bool { return to.Dominates(from) }

func (f *Frame) analyzeLoops() {
	ord := 0
	// headers in source order of blocks (for.loop blocks appear in source order)
	for _, b := range f.fn.Blocks {
		var back []*ssa.BasicBlock
		for _, p := range b.Preds {
			if isBackEdge(p, b) {
				back = append(back, p)
			}
		}
		if len(back) == 0 {
			continue
		}
		li := &loopInfo{header: b, body: map[*ssa.BasicBlock]bool{b: true}}
		var stack []*ssa.BasicBlock
		for _, p := range back {
			f.backSrc[p] = append(f.backSrc[p], b)
			if !li.body[p] {
				li.body[p] = true
				stack = append(stack, p)
			}
		}
		for len(stack) > 0 {
			x := stack[len(stack)-1]
			stack = stack[:len(stack)-1]
			for _, p := range x.Preds {
				if !li.body[p] {
					li.body[p] = true
					stack = append(stack, p)
				}
			}
		}
		f.loops[b] = li
	}
	// ordinals: source order of the loop statements. A loop's position is the smallest source position of a non-phi
	// instruction anywhere in its body (phi positions are those of variable declarations, which may precede the loop);
	// an enclosing loop sorts before the loops it contains.
	var hs []*ssa.BasicBlock
	pos := map[*ssa.BasicBlock]token.Pos{}
	for h, li := range f.loops {
		hs = append(hs, h)
		pos[h] = loopPos(li)
	}
	sort.Slice(hs, func(i, j int) bool {
		if pos[hs[i]] != pos[hs[j]] {
			return pos[hs[i]] < pos[hs[j]]
		}
		if a, b := len(f.loops[hs[i]].body), len(f.loops[hs[j]].body); a != b {
			return a > b
		}
		return hs[i].Index < hs[j].Index
	})
	for _, h := range hs {
		ord++
		f.loops[h].ordinal = ord
	}
}

func loopPos(li *loopInfo) token.Pos {
	var best token.Pos
	for b := range li.body {
		for _, ins := range b.Instrs {
			if _, ok := ins.(*ssa.Phi); ok {
				continue
			}
			if p := ins.Pos(); p.IsValid() && (best == 0 || p < best) {
				best = p
			}
			if d, ok := ins.(*ssa.DebugRef); ok {
				if _, isPhi := d.X.(*ssa.Phi); isPhi {
					continue
				}
				if p := d.Expr.Pos(); p.IsValid() && (best == 0 || p < best) {
					best = p
				}
			}
		}
	}
	if best == 0 {
		return token.Pos(1<<30 + li.header.Index)
	}
	return best
}

func rpo(fn *ssa.Function) []*ssa.BasicBlock {
	seen := map[*ssa.BasicBlock]bool{}
	var post []*ssa.BasicBlock
	var dfs func(b *ssa.BasicBlock)
	dfs = func(b *ssa.BasicBlock) {
		seen[b] = true
		for _, s := range b.Succs {
			if isBackEdge(b, s) {
				continue
			}
			if !seen[s] {
				dfs(s)
			}
		}
		post = append(post, b)
	}
	dfs(fn.Blocks[0])
	for i, j := 0, len(post)-1; i < j; i, j = i+1, j-1 {
		post[i], post[j] = post[j], post[i]
	}
	return post
}

func edgeIndex(from, to *ssa.BasicBlock) []int {
	var idx []int
	for i, s := range from.Succs {
		if s == to {
			idx = append(idx, i)
		}
	}
	return idx
}

// edgeCond is the condition under which control flows from p to b (given p was reached).
func (f *Frame) edgeCond(p, b *ssa.BasicBlock) string {
	o := f.outs[p]
	if o == nil {
		return "false"
	}
	var cs []string
	for _, i := range edgeIndex(p, b) {
		cs = append(cs, and(o.reach, o.cond[i]))
	}
	return or(cs...)
}

func (u *Unit) mergeMem(conds []string, mems []*Mem) *Mem {
	if len(mems) == 1 {
		return mems[0].clone()
	}
	out := &Mem{arr: map[string]string{}}
	sites := map[string]bool{}
	for _, m := range mems {
		for s := range m.arr {
			sites[s] = true
		}
	}
	var sl []string
	for s := range sites {
		sl = append(sl, s)
	}
	sort.Strings(sl)
	pick := func(get func(m *Mem) string, sort string, prefix string) string {
		t := get(mems[len(mems)-1])
		same := true
		for _, m := range mems {
			if get(m) != t {
				same = false
			}
		}
		if same {
			return t
		}
		for i := len(mems) - 2; i >= 0; i-- {
			t = ite(conds[i], get(mems[i]), t)
		}
		return u.ctx.def(prefix, sort, t)
	}
	for _, s := range sl {
		srt := u.siteSort[s]
		out.arr[s] = pick(func(m *Mem) string { return u.arr(m, s, srt) }, SArr(SInt, srt), "Mj:"+s)
	}
	out.alloc = pick(func(m *Mem) string { return m.alloc }, SInt, "allocj")
	out.wm = map[string]string{}
	for _, s := range sl {
		w := u.limitOf(mems[0], s)
		same := true
		for _, m := range mems[1:] {
			if u.limitOf(m, s) != w {
				same = false
			}
		}
		if same {
			out.wm[s] = w
		} else {
			out.wm[s] = out.alloc
		}
	}
	return out
}

// ---------- running a function body ----------

// run encodes the body of f.fn starting from st; returns merged return state.
func (f *Frame) run(st *state) (ret *state, results []Val) {
	fn := f.fn
	if len(fn.Blocks) == 0 {
		unsupportedf("function %s has no body", f.key)
	}
	f.analyzeLoops()
	f.entry = st.mem.clone()
	f.entryR = st.reach
	for _, b := range rpo(fn) {
		f.block(b, st)
	}
	// merge returns
	if len(f.rets) == 0 {
		return &state{reach: "false", mem: st.mem.clone()}, nil
	}
	var conds []string
	var mems []*Mem
	for _, r := range f.rets {
		conds = append(conds, r.reach)
		mems = append(mems, r.mem)
	}
	out := &state{reach: f.u.ctx.def(f.prefix+".ret", SBool, or(conds...)), mem: f.u.mergeMem(conds, mems)}
	if len(mems) > 1 && out.mem.alloc != f.entry.alloc {
		f.u.ctx.assert("alloc-mono", le(f.entry.alloc, out.mem.alloc))
	}
	nres := len(f.rets[0].vals)
	for j := 0; j < nres; j++ {
		v := f.rets[len(f.rets)-1].vals[j]
		merged := Val{T: v.T, S: append([]string(nil), v.S...)}
		for i := len(f.rets) - 2; i >= 0; i-- {
			w := f.rets[i].vals[j]
			for k := range merged.S {
				merged.S[k] = ite(f.rets[i].reach, w.S[k], merged.S[k])
			}
		}
		ls := leavesOf(v.T, "elem")
		for k := range merged.S {
			merged.S[k] = f.u.ctx.def(fmt.Sprintf("%s.res%d", f.prefix, j), ls[k].Sort, merged.S[k])
		}
		if len(f.rets) == 1 {
			merged = v
		}
		results = append(results, merged)
	}
	return out, results
}

func (f *Frame) block(b *ssa.BasicBlock, entry *state) {
	u := f.u
	if f == u.rootFrame {
		u.ctx.curBlk = b.Index
	}
	var st *state
	li := f.loops[b]
	if b == f.fn.Blocks[0] {
		st = &state{reach: entry.reach, mem: entry.mem.clone()}
	} else {
		var conds []string
		var mems []*Mem
		var preds []*ssa.BasicBlock
		for _, p := range b.Preds {
			if isBackEdge(p, b) {
				continue
			}
			if f.outs[p] == nil {
				continue // unreachable predecessor
			}
			dup := false
			for _, q := range preds {
				if q == p {
					dup = true
				}
			}
			if dup {
				continue
			}
			preds = append(preds, p)
			conds = append(conds, f.edgeCond(p, b))
			mems = append(mems, f.outs[p].mem)
		}
		if len(preds) == 0 {
			return
		}
		reach := u.ctx.def(fmt.Sprintf("%s.reach%d", f.prefix, b.Index), SBool, or(conds...))
		st = &state{reach: reach, mem: u.mergeMem(conds, mems)}
		if len(preds) > 1 {
			// dominance lemma: reaching b implies having left its immediate dominator (spares the solver the
			// case analysis over the diamond-shaped definitions of the reachability predicates)
			if id := b.Idom(); id != nil && f.outs[id] != nil && f.outs[id].reach != "true" {
				u.ctx.assert("dom", implies(reach, f.outs[id].reach))
			}
		}
		if len(preds) > 1 {
			// the allocation pointer only grows: relate the merged value to the immediate dominator's (a lemma that
			// spares the solver a case split over every branch)
			if id := b.Idom(); id != nil && f.outs[id] != nil && f.outs[id].mem.alloc != st.mem.alloc {
				u.ctx.assert("alloc-mono", le(f.outs[id].mem.alloc, st.mem.alloc))
			}
		}
		// phis (entering values)
		for _, ins := range b.Instrs {
			phi, ok := ins.(*ssa.Phi)
			if !ok {
				continue
			}
			var pv *Val
			for i := len(preds) - 1; i >= 0; i-- {
				// find edge value for pred
				var ev Val
				for k, p := range b.Preds {
					if p == preds[i] {
						ev = f.val(phi.Edges[k])
						break
					}
				}
				if pv == nil {
					c := Val{T: phi.Type(), S: append([]string(nil), ev.S...), Hint: ev.Hint, Fn: ev.Fn, Binds: ev.Binds}
					pv = &c
				} else {
					for k := range pv.S {
						pv.S[k] = ite(conds[i], ev.S[k], pv.S[k])
					}
					if pv.Hint != ev.Hint {
						pv.Hint = ""
					}
					pv.Fn = nil
				}
			}
			f.bind(phi, *pv)
		}
	}
	if li != nil {
		f.loopHead(li, st)
	}
	for _, ins := range b.Instrs {
		if _, ok := ins.(*ssa.Phi); ok {
			continue
		}
		f.instr(ins, st)
	}
	// terminator
	out := &blockOut{reach: st.reach, mem: st.mem}
	if len(b.Instrs) > 0 {
		switch t := b.Instrs[len(b.Instrs)-1].(type) {
		case *ssa.If:
			c := f.val(t.Cond).S[0]
			out.cond = []string{c, not(c)}
		case *ssa.Jump:
			out.cond = []string{"true"}
		default:
			out.cond = nil
		}
	}
	f.outs[b] = out
	// back edges leaving this block
	for _, h := range f.backSrc[b] {
		f.loopBack(f.loops[h], b)
	}
}

type strKeyRec struct {
	sig string
	v   Val
	id  string
}
