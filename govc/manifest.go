package main

import (
	"encoding/json"
	"fmt"
	"os"
	"path/filepath"
	"sort"
)

// notApplicable lists properties that are not claimed, with the reason.
var notApplicable = map[string]string{}

func cmdManifest() int {
	type check struct {
		PropertyID   string         `json:"property_id"`
		QuickCmd     string         `json:"quick_cmd"`
		ThoroughCmd  string         `json:"thorough_cmd"`
		EvidenceFile string         `json:"evidence_file"`
		ReplayTmpl   string         `json:"replay_cmd_template"`
		Engine       string         `json:"engine"`
		Level        map[string]any `json:"level_claimed"`
		LevelNote    string         `json:"level_note"`
		Technique    string         `json:"technique"`
	}
	var ids []string
	for id := range propDefs {
		ids = append(ids, id)
	}
	sort.Strings(ids)
	var checks []check
	for _, id := range ids {
		pd := propDefs[id]
		cat := pd.Level
		if cat == "" {
			cat = "proof"
		}
		checks = append(checks, check{
			PropertyID:   id,
			QuickCmd:     fmt.Sprintf("bin/govc check -p %s -tier quick", id),
			ThoroughCmd:  fmt.Sprintf("bin/govc check -p %s -tier thorough", id),
			EvidenceFile: fmt.Sprintf("/verif/evidence/%s.json", id),
			ReplayTmpl:   "bin/govc replay {path}",
			Engine:       "govc",
			Level: map[string]any{"category": cat, "text": pd.Decided, "design_ref": "DESIGN.md §4 " + id},
			LevelNote: "trusted: go/ssa front end, govc's SMT encoding of Go semantics, the SMT solvers, library models listed in the evidence, A1 (input lengths <= 2^40), Go memory safety without unsafe. Not decided: " + joinOr(pd.Undecided, "-"),
			Technique: "contract-based deductive verification: weakest-precondition style VCs generated from go/ssa of the real functions, contracts in //go:build verif comment files, discharged by z3/cvc5",
		})
	}
	var na []map[string]string
	var naIDs []string
	for id := range notApplicable {
		naIDs = append(naIDs, id)
	}
	sort.Strings(naIDs)
	for _, id := range naIDs {
		if _, claimed := propDefs[id]; claimed {
			continue
		}
		na = append(na, map[string]string{"property_id": id, "reason": notApplicable[id]})
	}
	var served []string
	served = append(served, ids...)
	m := map[string]any{
		"version":   1,
		"setup_cmd": "cd /verif/govc && GOFLAGS=-mod=mod GOPROXY=off GOSUMDB=off GOTOOLCHAIN=local go build -o ../bin/govc .",
		"hooks": map[string]any{
			"guard":            "verif",
			"enable":           "contracts live in comment-only files <pkg>/zz_verif_contracts.go carrying //go:build verif (govc reads them as text next to the package sources); the harness functions that state round trips by calling the real functions (protocol/model, protocol/jt808 and terminal: zz_verif_roundtrip.go) carry the same tag; the Go compiler sees none of them without -tags verif",
			"baseline_off_cmd": "for m in protocol service attachment terminal shared; do (cd /repo/$m && GOFLAGS=-mod=mod GOPROXY=off GOSUMDB=off go test -vet=off -count=1 ./...) || exit 1; done",
			"source_commits":   hookCommits(),
			"add_only":         true,
		},
		"engines": []map[string]any{{"name": "govc", "path": "/verif/govc", "serves_properties": served,
			"kind_free_text": "deductive verifier for Go written for this task: go/ssa -> verification conditions (SMT-LIB) -> z3 5.1 / z3 4.8 / cvc5 portfolio, counterexamples replayed on the real code through go test -overlay"}},
		"checks":         checks,
		"not_applicable": na,
		"notes":          "Every check reloads /repo's working tree (go/packages through a generated harness module with replace directives), regenerates all obligations and discharges each with an SMT solver. See DESIGN.md.",
	}
	data, _ := json.MarshalIndent(m, "", " ")
	if err := os.WriteFile(filepath.Join(verifRoot(), "MANIFEST.json"), append(data, '\n'), 0o644); err != nil {
		fmt.Fprintln(os.Stderr, err)
		return 2
	}
	return 0
}

func joinOr(xs []string, def string) string {
	if len(xs) == 0 {
		return def
	}
	out := ""
	for i, x := range xs {
		if i > 0 {
			out += "; "
		}
		out += x
	}
	return out
}

func hookCommits() []string {
	out, err := runCmd(repoRoot(), os.Environ(), "git", "log", "--format=%h %s", "--", "*zz_verif_contracts.go")
	if err != nil {
		return nil
	}
	var cs []string
	for _, l := range splitLines(out) {
		if len(l) > 7 {
			cs = append(cs, l[:7])
		}
	}
	return cs
}

func splitLines(s string) []string {
	var out []string
	cur := ""
	for _, c := range s {
		if c == '\n' {
			if cur != "" {
				out = append(out, cur)
			}
			cur = ""
		} else {
			cur += string(c)
		}
	}
	if cur != "" {
		out = append(out, cur)
	}
	return out
}
