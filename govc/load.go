package main

import (
	"fmt"
	"go/token"
	"go/types"
	"os"
	"os/exec"
	"path/filepath"
	"sort"
	"strings"

	"golang.org/x/tools/go/packages"
	"golang.org/x/tools/go/ssa"
	"golang.org/x/tools/go/ssa/ssautil"
)

const modRoot = "github.com/cuteLittleDevil/go-jt808"

var subModules = []string{"protocol", "service", "shared", "attachment", "terminal"}

// Program is the loaded view of /repo.
type Program struct {
	Repo    string
	Harness string
	Fset    *token.FileSet
	Pkgs    []*packages.Package
	SSA     *ssa.Program
	ByPath  map[string]*ssa.Package
	funcs   map[string]*ssa.Function // canonical name -> function
}

func repoRoot() string {
	if r := os.Getenv("GOVC_REPO"); r != "" {
		return r
	}
	return "/repo"
}

func verifRoot() string {
	if r := os.Getenv("GOVC_VERIF"); r != "" {
		return r
	}
	return "/verif"
}

func goEnv() []string {
	env := os.Environ()
	env = append(env, "GOFLAGS=-mod=mod", "GOPROXY=off", "GOSUMDB=off", "GOTOOLCHAIN=local", "GOWORK=off")
	return env
}

// makeHarness writes a module that replaces all sub-modules by the working tree.
func makeHarness(repo, dir string) error {
	if err := os.MkdirAll(dir, 0o755); err != nil {
		return err
	}
	var b strings.Builder
	b.WriteString("module harness\n\ngo 1.23.2\n\nrequire (\n")
	for _, m := range subModules {
		fmt.Fprintf(&b, "\t%s/%s v0.0.0\n", modRoot, m)
	}
	b.WriteString("\tgolang.org/x/text v0.21.0\n)\n\n")
	for _, m := range subModules {
		fmt.Fprintf(&b, "replace %s/%s => %s/%s\n", modRoot, m, repo, m)
	}
	if err := os.WriteFile(filepath.Join(dir, "go.mod"), []byte(b.String()), 0o644); err != nil {
		return err
	}
	// merged go.sum
	seen := map[string]bool{}
	var lines []string
	for _, m := range subModules {
		data, err := os.ReadFile(filepath.Join(repo, m, "go.sum"))
		if err != nil {
			continue
		}
		for _, l := range strings.Split(string(data), "\n") {
			l = strings.TrimSpace(l)
			if l != "" && !seen[l] {
				seen[l] = true
				lines = append(lines, l)
			}
		}
	}
	sort.Strings(lines)
	if err := os.WriteFile(filepath.Join(dir, "go.sum"), []byte(strings.Join(lines, "\n")+"\n"), 0o644); err != nil {
		return err
	}
	return os.WriteFile(filepath.Join(dir, "doc.go"), []byte("package harness\n"), 0o644)
}

var loadPatterns = []string{
	modRoot + "/protocol",
	modRoot + "/protocol/jt808",
	modRoot + "/protocol/jt1078",
	modRoot + "/protocol/model",
	modRoot + "/protocol/utils",
	modRoot + "/service",
	modRoot + "/attachment",
	modRoot + "/terminal",
	modRoot + "/shared/consts",
}

func loadProgram() (*Program, error) {
	repo := repoRoot()
	harness := os.Getenv("GOVC_HARNESS")
	if harness == "" {
		harness = filepath.Join(verifRoot(), ".work", fmt.Sprintf("harness-%d", os.Getpid()))
	}
	if err := makeHarness(repo, harness); err != nil {
		return nil, err
	}
	fset := token.NewFileSet()
	cfg := &packages.Config{
		Mode: packages.NeedName | packages.NeedFiles | packages.NeedCompiledGoFiles | packages.NeedImports |
			packages.NeedDeps | packages.NeedTypes | packages.NeedSyntax | packages.NeedTypesInfo | packages.NeedTypesSizes | packages.NeedModule,
		Dir:  harness,
		Env:  goEnv(),
		Fset: fset,
		// the guard tag of the hooks: contract files (comment-only) and verification harness functions
		BuildFlags: []string{"-tags=verif"},
	}
	pkgs, err := packages.Load(cfg, loadPatterns...)
	if err != nil {
		return nil, err
	}
	nerr := 0
	packages.Visit(pkgs, nil, func(p *packages.Package) {
		for _, e := range p.Errors {
			fmt.Fprintf(os.Stderr, "load error: %s: %v\n", p.PkgPath, e)
			nerr++
		}
	})
	if nerr > 0 {
		return nil, fmt.Errorf("%d load errors (the tree does not compile)", nerr)
	}
	prog, spkgs := ssautil.AllPackages(pkgs, ssa.GlobalDebug|ssa.InstantiateGenerics)
	prog.Build()
	p := &Program{Repo: repo, Harness: harness, Fset: fset, Pkgs: pkgs, SSA: prog, ByPath: map[string]*ssa.Package{}, funcs: map[string]*ssa.Function{}}
	for i, sp := range spkgs {
		if sp != nil {
			p.ByPath[pkgs[i].PkgPath] = sp
		}
	}
	for _, sp := range prog.AllPackages() {
		p.ByPath[sp.Pkg.Path()] = sp
	}
	// verify resolution to the working tree
	for _, pk := range pkgs {
		if pk.Module != nil && strings.HasPrefix(pk.PkgPath, modRoot) {
			d := pk.Module.Dir
			if !strings.HasPrefix(d, repo) {
				return nil, fmt.Errorf("package %s resolved to %s, not the working tree", pk.PkgPath, d)
			}
		}
	}
	for fn := range ssautil.AllFunctions(prog) {
		p.funcs[funcKey(fn)] = fn
	}
	return p, nil
}

func (p *Program) cleanup() {
	if os.Getenv("GOVC_KEEP") == "" {
		os.RemoveAll(p.Harness)
	}
}

// shortPkg maps an import path to the short name used in obligation names.
func shortPkg(path string) string {
	if strings.HasPrefix(path, modRoot+"/") {
		path = strings.TrimPrefix(path, modRoot+"/")
		path = strings.TrimPrefix(path, "protocol/")
		path = strings.TrimPrefix(path, "shared/")
	}
	return path
}

// funcKey: "model.(*T0x0704).Parse", "jt808.unescape", "service.(*packageParse).unpack$1"
func funcKey(fn *ssa.Function) string {
	if fn == nil {
		return "<nil>"
	}
	if fn.Parent() != nil {
		// anonymous function: parent key + $n
		name := fn.Name()
		if i := strings.LastIndex(name, "$"); i >= 0 {
			return funcKey(fn.Parent()) + name[i:]
		}
		return funcKey(fn.Parent()) + "$" + name
	}
	pkg := ""
	if fn.Pkg != nil {
		pkg = shortPkg(fn.Pkg.Pkg.Path())
	} else if fn.Object() != nil && fn.Object().Pkg() != nil {
		pkg = shortPkg(fn.Object().Pkg().Path())
	}
	if recv := fn.Signature.Recv(); recv != nil {
		t := recv.Type()
		star := ""
		if pt, ok := t.(*types.Pointer); ok {
			t = pt.Elem()
			star = "*"
		}
		tn := types.TypeString(t, func(*types.Package) string { return "" })
		return fmt.Sprintf("%s.(%s%s).%s", pkg, star, tn, fn.Name())
	}
	return pkg + "." + fn.Name()
}

func (p *Program) Func(key string) *ssa.Function { return p.funcs[key] }

func (p *Program) pkgDir(path string) string {
	for _, pk := range p.Pkgs {
		if pk.PkgPath == path && len(pk.GoFiles) > 0 {
			return filepath.Dir(pk.GoFiles[0])
		}
	}
	var dir string
	packages.Visit(p.Pkgs, nil, func(pk *packages.Package) {
		if pk.PkgPath == path && len(pk.GoFiles) > 0 {
			dir = filepath.Dir(pk.GoFiles[0])
		}
	})
	return dir
}

func runCmd(dir string, env []string, name string, args ...string) (string, error) {
	c := exec.Command(name, args...)
	c.Dir = dir
	c.Env = env
	out, err := c.CombinedOutput()
	return string(out), err
}
