package main

import (
	"context"
	"encoding/json"
	"fmt"
	"go/types"
	"math/big"
	"os"
	"os/exec"
	"path/filepath"
	"strconv"
	"strings"
	"time"

	"golang.org/x/tools/go/ssa"
)

// Oracle answers "what is the value of this term in the counterexample", re-solving with earlier answers pinned.
// Lookups are lazy: unknown terms are queued and resolved together by flush (one solver call per round).
type Oracle struct {
	ctx     *Ctx
	base    string
	known   map[string]string
	order   []string
	timeout time.Duration
	failed  bool
	pending []string
	pendSet map[string]bool
	rounds  int
	soft    []string // accepted size preferences
	softNew []string // size preferences proposed in this round
	softSet map[string]bool
}

// prefer proposes "term <= bound" so that counterexamples stay small; dropped when inconsistent with the model.
func (o *Oracle) prefer(term string, bound int) {
	c := le(term, intLit(int64(bound)))
	if o.softSet == nil {
		o.softSet = map[string]bool{}
	}
	if !o.softSet[c] {
		o.softSet[c] = true
		o.softNew = append(o.softNew, c)
	}
}

func (o *Oracle) get(terms ...string) []string {
	out := make([]string, len(terms))
	for i, t := range terms {
		if v, ok := o.known[t]; ok {
			out[i] = v
			continue
		}
		if o.pendSet == nil {
			o.pendSet = map[string]bool{}
		}
		if !o.pendSet[t] {
			o.pendSet[t] = true
			o.pending = append(o.pending, t)
		}
	}
	return out
}

// flush resolves all queued terms with one solver call; false when nothing was pending.
func (o *Oracle) flush() bool {
	if len(o.pending) == 0 {
		return false
	}
	need := o.pending
	o.pending, o.pendSet = nil, nil
	o.rounds++
	t0 := time.Now()
	o.fetch(need)
	if os.Getenv("GOVC_DEBUG") != "" {
		fmt.Fprintf(os.Stderr, "  oracle round %d: %d terms %.1fs\n", o.rounds, len(need), time.Since(t0).Seconds())
	}
	return true
}

func (o *Oracle) fetch(need []string) {
	if o.failed {
		return
	}
	// declare heap arrays that the program never touched before this obligation
	for _, t := range need {
		for _, sym := range symsOf(t) {
			if idx, ok := o.ctx.names[sym]; ok && o.ctx.items[idx].kind == itDecl && !strings.Contains(o.base, o.ctx.items[idx].text) {
				o.base = o.ctx.items[idx].text + "\n" + o.base
			}
		}
	}
	var b strings.Builder
	b.WriteString(o.base)
	for _, t := range o.order {
		fmt.Fprintf(&b, "(assert (= %s %s))\n", t, o.known[t])
	}
	for _, c := range o.soft {
		fmt.Fprintf(&b, "(assert %s)\n", c)
	}
	hard := b.String()
	var r []string
	if len(o.softNew) > 0 {
		// try the size preferences as proposed, then relaxed by x8 and x64, before giving them up
		for _, scale := range []int64{1, 8, 64} {
			var sb strings.Builder
			sb.WriteString(hard)
			var scaled []string
			for _, c := range o.softNew {
				// c is "(<= term N)"
				i := strings.LastIndex(c, " ")
				n, _ := strconv.ParseInt(strings.TrimSuffix(c[i+1:], ")"), 10, 64)
				sc := c[:i+1] + strconv.FormatInt(n*scale, 10) + ")"
				scaled = append(scaled, sc)
				fmt.Fprintf(&sb, "(assert %s)\n", sc)
			}
			r = solveTerms(sb.String(), need, o.timeout)
			if r != nil {
				o.soft = append(o.soft, scaled...)
				break
			}
		}
		o.softNew = nil
	}
	if r == nil {
		r = solveTerms(hard, need, o.timeout)
	}
	if r == nil {
		o.failed = true
		return
	}
	for i, t := range need {
		if i < len(r) && r[i] != "" {
			o.known[t] = r[i]
			o.order = append(o.order, t)
		} else {
			o.failed = true
		}
	}
}

// solveTerms runs z3 and returns the values of the given terms (nil when not sat).
func solveTerms(script string, terms []string, timeout time.Duration) []string {
	var b strings.Builder
	b.WriteString("(set-option :produce-models true)\n(set-logic ALL)\n")
	b.WriteString(script)
	b.WriteString("(check-sat)\n")
	for _, t := range terms {
		fmt.Fprintf(&b, "(get-value (%s))\n", t)
	}
	file := filepath.Join(queryDir(), fmt.Sprintf("orc%d.smt2", time.Now().UnixNano()))
	os.WriteFile(file, []byte(b.String()), 0o644)
	if os.Getenv("GOVC_KEEP") == "" {
		defer os.Remove(file)
	}
	for _, s := range []solverSpec{solvers[1], solvers[0]} {
		cctx, cancel := context.WithTimeout(context.Background(), timeout+2*time.Second)
		cmd := exec.CommandContext(cctx, s.bin, s.args(int(timeout/time.Millisecond), file)...)
		out, _ := cmd.CombinedOutput()
		cancel()
		if os.Getenv("GOVC_DEBUG") != "" {
			fmt.Fprintf(os.Stderr, "oracle %s %s: %s\n", s.name, file, trimOut(string(out)))
		}
		lines := strings.SplitN(string(out), "\n", 2)
		if strings.TrimSpace(lines[0]) != "sat" || len(lines) < 2 {
			continue
		}
		vals := splitTopLevelGroups(lines[1])
		res := make([]string, len(terms))
		for i := range terms {
			if i < len(vals) {
				// "((term value))": strip the term by taking the last top-level element
				res[i] = lastElement(vals[i])
			}
		}
		return res
	}
	return nil
}

func splitTopLevelGroups(s string) []string {
	var out []string
	depth, start := 0, -1
	inq := false
	for i := 0; i < len(s); i++ {
		c := s[i]
		if c == '|' {
			inq = !inq
		}
		if inq {
			continue
		}
		if c == '(' {
			if depth == 0 {
				start = i
			}
			depth++
		} else if c == ')' {
			depth--
			if depth == 0 && start >= 0 {
				out = append(out, s[start:i+1])
				start = -1
			}
		}
	}
	return out
}

// lastElement of "((t v))" returns v.
func lastElement(g string) string {
	g = strings.TrimSpace(g)
	if len(g) < 4 {
		return ""
	}
	inner := strings.TrimSpace(g[1 : len(g)-1]) // "(t v)"
	if len(inner) < 2 {
		return ""
	}
	inner = strings.TrimSpace(inner[1 : len(inner)-1]) // "t v"
	// walk to split into top-level elements
	var elems []string
	depth, start := 0, -1
	inq := false
	for i := 0; i <= len(inner); i++ {
		var c byte = ' '
		if i < len(inner) {
			c = inner[i]
		}
		if c == '|' {
			inq = !inq
			if start < 0 {
				start = i
			}
			continue
		}
		if inq {
			continue
		}
		switch {
		case c == '(':
			if depth == 0 && start < 0 {
				start = i
			}
			depth++
		case c == ')':
			depth--
		case c == ' ' || c == '\n' || c == '\t':
			if depth == 0 && start >= 0 {
				elems = append(elems, inner[start:i])
				start = -1
			}
		default:
			if start < 0 {
				start = i
			}
		}
	}
	if len(elems) == 0 {
		return ""
	}
	return elems[len(elems)-1]
}

func parseSMTInt(v string) (*big.Int, bool) {
	v = strings.TrimSpace(v)
	neg := false
	if strings.HasPrefix(v, "(-") {
		neg = true
		v = strings.TrimSpace(strings.TrimSuffix(strings.TrimPrefix(v, "(-"), ")"))
	}
	n := new(big.Int)
	switch {
	case strings.HasPrefix(v, "#x"):
		if _, ok := n.SetString(v[2:], 16); !ok {
			return nil, false
		}
	case strings.HasPrefix(v, "#b"):
		if _, ok := n.SetString(v[2:], 2); !ok {
			return nil, false
		}
	case strings.HasPrefix(v, "(_ bv"):
		f := strings.Fields(v[5:])
		if len(f) == 0 {
			return nil, false
		}
		if _, ok := n.SetString(f[0], 10); !ok {
			return nil, false
		}
	default:
		if _, ok := n.SetString(v, 10); !ok {
			return nil, false
		}
	}
	if neg {
		n.Neg(n)
	}
	return n, true
}

// ---------- materialisation of Go values from the model ----------

type materializer struct {
	u       *Unit
	orc     *Oracle
	pkg     *types.Package
	decls   []string // statements building the inputs
	nvar    int
	ptrVars map[string]string // "addr|type" -> variable
	approx  []string
	imports map[string]bool
	tooBig  bool
	needSet bool
}

func (m *materializer) qual(p *types.Package) string {
	if p == m.pkg {
		return ""
	}
	m.imports[p.Path()] = true
	return p.Name()
}

func (m *materializer) typeStr(t types.Type) string { return types.TypeString(t, m.qual) }

func (m *materializer) fresh(prefix string) string {
	m.nvar++
	return fmt.Sprintf("%s%d", prefix, m.nvar)
}

func (m *materializer) intOf(term string) (*big.Int, bool) {
	v := m.orc.get(term)[0]
	if v == "" {
		return nil, false
	}
	return parseSMTInt(v)
}

func (m *materializer) m0(site, sort string) string {
	return m.u.arr(m.u.entryMem, site, sort)
}

// memVal builds the Go expression for the value of type t stored at addr in the entry heap.
func (m *materializer) memVal(t types.Type, addr string, hint string, depth int) string {
	ls := leavesOf(t, hint)
	slots := make([]string, len(ls))
	for i, l := range ls {
		slots[i] = sel(m.m0(l.Site, l.Sort), add(addr, intLit(int64(l.Off))))
	}
	return m.value(t, slots, depth)
}

const maxMaterialize = 1 << 16

// value builds a Go expression for a value of type t with the given slot terms.
func (m *materializer) value(t types.Type, slots []string, depth int) string {
	if depth > 8 {
		m.approx = append(m.approx, "nesting too deep; zero value used for "+m.typeStr(t))
		return fmt.Sprintf("*new(%s)", m.typeStr(t))
	}
	switch u := t.Underlying().(type) {
	case *types.Basic:
		switch {
		case u.Info()&types.IsBoolean != 0:
			v := m.orc.get(slots[0])[0]
			return fmt.Sprintf("%s(%s)", m.typeStr(t), strings.TrimSpace(v))
		case u.Info()&types.IsString != 0:
			m.orc.prefer(slots[1], 48)
			n, ok := m.intOf(slots[1])
			if !ok || n.Sign() <= 0 {
				return fmt.Sprintf("%s(\"\")", m.typeStr(t))
			}
			if n.Int64() > maxMaterialize {
				m.tooBig = true
				return fmt.Sprintf("%s(\"\")", m.typeStr(t))
			}
			var terms []string
			for i := int64(0); i < n.Int64(); i++ {
				terms = append(terms, sel(m.m0(strSite, SBV(8)), add(slots[0], intLit(i))))
			}
			vals := m.orc.get(terms...)
			bs := make([]byte, len(vals))
			for i, v := range vals {
				if x, ok := parseSMTInt(v); ok {
					bs[i] = byte(x.Uint64())
				}
			}
			return fmt.Sprintf("%s(%s)", m.typeStr(t), strconv.Quote(string(bs)))
		case u.Info()&types.IsInteger != 0:
			n, ok := m.intOf(slots[0])
			if !ok {
				n = big.NewInt(0)
			}
			if isSigned(t) && !isIntSort(t) {
				srt, _ := intSort(u)
				w := bvWidth(srt)
				if n.Bit(w-1) == 1 {
					n = new(big.Int).Sub(n, new(big.Int).Lsh(big.NewInt(1), uint(w)))
				}
			}
			return fmt.Sprintf("%s(%s)", m.typeStr(t), n.String())
		}
		return fmt.Sprintf("*new(%s)", m.typeStr(t))
	case *types.Pointer:
		a, ok := m.intOf(slots[0])
		if !ok || a.Sign() == 0 {
			return fmt.Sprintf("(%s)(nil)", m.typeStr(t))
		}
		key := a.String() + "|" + m.typeStr(t)
		if v, ok := m.ptrVars[key]; ok {
			return v
		}
		v := m.fresh("p")
		m.ptrVars[key] = v
		m.decls = append(m.decls, fmt.Sprintf("%s := new(%s)", v, m.typeStr(u.Elem())))
		// fill fields
		m.fill(v, u.Elem(), a.String(), "elem", depth+1)
		return v
	case *types.Slice:
		m.orc.prefer(slots[2], 96)
		p, ok1 := m.intOf(slots[0])
		n, ok2 := m.intOf(slots[1])
		c, ok3 := m.intOf(slots[2])
		if !ok1 || !ok2 || !ok3 || (p.Sign() == 0 && c.Sign() == 0) {
			return fmt.Sprintf("%s(nil)", m.typeStr(t))
		}
		if n.Sign() < 0 || c.Sign() < 0 || n.Cmp(c) > 0 || p.Sign() <= 0 {
			// an ill-formed header can only sit in memory the program never reads: any value will do
			return fmt.Sprintf("%s(nil)", m.typeStr(t))
		}
		if c.Int64() > maxMaterialize {
			m.tooBig = true
			return fmt.Sprintf("%s(nil)", m.typeStr(t))
		}
		v := m.fresh("s")
		m.decls = append(m.decls, fmt.Sprintf("%s := make(%s, %d, %d)", v, m.typeStr(t), c.Int64(), c.Int64()))
		stride := elemStride(u.Elem())
		if isByteSlice(t) {
			var terms []string
			for i := int64(0); i < c.Int64(); i++ {
				terms = append(terms, sel(m.m0(byteSite, SBV(8)), add(p.String(), intLit(i))))
			}
			vals := m.orc.get(terms...)
			var lits []string
			for _, x := range vals {
				bi, ok := parseSMTInt(x)
				if !ok {
					bi = big.NewInt(0)
				}
				lits = append(lits, fmt.Sprintf("0x%02x", bi.Uint64()&0xff))
			}
			m.decls = append(m.decls, fmt.Sprintf("copy(%s, []byte{%s})", v, strings.Join(lits, ", ")))
		} else {
			for i := int64(0); i < c.Int64(); i++ {
				addr := new(big.Int).Add(p, big.NewInt(i*int64(stride)))
				ev := m.memVal(u.Elem(), addr.String(), "elem", depth+1)
				m.decls = append(m.decls, fmt.Sprintf("%s[%d] = %s", v, i, ev))
			}
		}
		m.decls = append(m.decls, fmt.Sprintf("%s = %s[:%d]", v, v, n.Int64()))
		return v
	case *types.Struct:
		v := m.fresh("st")
		m.decls = append(m.decls, fmt.Sprintf("var %s %s", v, m.typeStr(t)))
		li := 0
		for i := 0; i < u.NumFields(); i++ {
			ft := u.Field(i).Type()
			nl := len(leavesOf(ft, "elem"))
			if nl > 0 {
				fv := m.value(ft, slots[li:li+nl], depth+1)
				m.setField(v, u.Field(i), fv)
			}
			li += nl
		}
		return v
	case *types.Array:
		v := m.fresh("ar")
		m.decls = append(m.decls, fmt.Sprintf("var %s %s", v, m.typeStr(t)))
		nl := len(leavesOf(u.Elem(), "elem"))
		for i := 0; i < int(u.Len()); i++ {
			m.decls = append(m.decls, fmt.Sprintf("%s[%d] = %s", v, i, m.value(u.Elem(), slots[i*nl:(i+1)*nl], depth+1)))
		}
		return v
	case *types.Map:
		a, ok := m.intOf(slots[0])
		if !ok || a.Sign() == 0 {
			return fmt.Sprintf("%s(nil)", m.typeStr(t))
		}
		m.approx = append(m.approx, "map input materialised as empty map: "+m.typeStr(t))
		return fmt.Sprintf("make(%s)", m.typeStr(t))
	case *types.Interface:
		a, ok := m.intOf(slots[0])
		if !ok || a.Sign() == 0 {
			return fmt.Sprintf("%s(nil)", m.typeStr(t))
		}
		m.approx = append(m.approx, "non-nil interface input materialised as nil: "+m.typeStr(t))
		return fmt.Sprintf("%s(nil)", m.typeStr(t))
	case *types.Signature:
		a, ok := m.intOf(slots[0])
		if ok && a.Sign() != 0 {
			m.approx = append(m.approx, "non-nil func input materialised as nil")
		}
		return fmt.Sprintf("(%s)(nil)", m.typeStr(t))
	}
	m.approx = append(m.approx, "unsupported input type "+m.typeStr(t))
	return fmt.Sprintf("*new(%s)", m.typeStr(t))
}

// fill sets the fields of *v (of type t) from the heap at addr.
func (m *materializer) fill(v string, t types.Type, addr string, hint string, depth int) {
	if st, ok := t.Underlying().(*types.Struct); ok {
		for i := 0; i < st.NumFields(); i++ {
			off, _, _ := fieldOffset(t, i)
			ft := st.Field(i).Type()
			if len(leavesOfSafe(ft)) == 0 {
				continue
			}
			a := new(big.Int)
			a.SetString(addr, 10)
			a.Add(a, big.NewInt(int64(off)))
			fv := m.memVal(ft, a.String(), fieldHint(t, i), depth)
			m.setField("(*"+v+")", st.Field(i), fv)
		}
		return
	}
	m.decls = append(m.decls, fmt.Sprintf("*%s = %s", v, m.memVal(t, addr, hint, depth)))
}

func (m *materializer) setField(v string, f *types.Var, val string) {
	if f.Exported() || f.Pkg() == m.pkg {
		m.decls = append(m.decls, fmt.Sprintf("%s.%s = %s", v, f.Name(), val))
		return
	}
	m.imports["reflect"] = true
	m.imports["unsafe"] = true
	ptr := "&" + v
	if strings.HasPrefix(v, "(*") && strings.HasSuffix(v, ")") {
		ptr = v[2 : len(v)-1]
	}
	m.decls = append(m.decls, fmt.Sprintf("govcSet(%s, %q, %s)", ptr, f.Name(), val))
	m.needSet = true
}

// ---------- test generation ----------

var panicKinds = map[string]bool{"bounds": true, "nil": true, "conv": true, "div0": true, "panic": true, "mapnil": true, "typeassert": true, "pre": true, "makeslice": true, "shift": true}

type replayOutcome struct {
	Path       string
	Reproduced bool
	Ran        bool
	Output     string
	Note       string
}

func reportViolation(p *Program, res *UnitResult, o *Obligation, pd *PropDef, dir string, timeout time.Duration, doReplay bool) string {
	os.MkdirAll(dir, 0o755)
	base := filepath.Join(dir, sanitize(o.Name))
	info := fmt.Sprintf("property %s\nobligation %s\nkind %s\nposition %s\nverdict %s (%s, %.2fs)\n", pd.ID, o.Name, o.Kind, o.Pos, o.Res.Verdict, o.Res.Solver, o.Res.Seconds)
	if o.Res.Verdict != "sat" {
		path := base + ".txt"
		os.WriteFile(path, []byte(info+"\nThe obligation could not be discharged and the solvers returned no model.\n\n--- solver output ---\n"+o.Res.Output+"\n"), 0o644)
		return fmt.Sprintf("VIOLATION property=%s replay=%s obligation=%s verdict=%s no-failing-input-found", pd.ID, path, o.Name, o.Res.Verdict)
	}
	var out replayOutcome
	if doReplay {
		out = replayCounterexample(p, res, o, base, timeout)
	} else {
		out = replayOutcome{Note: "not replayed: the per-run replay limit was reached (earlier violations of this run carry replays)"}
	}
	txt := info + "\n" + out.Note + "\n\n--- replay output ---\n" + out.Output + "\n\n--- solver model (inputs) ---\n"
	for _, in := range res.unit.inputs {
		txt += fmt.Sprintf("%s = %s\n", in.Name, o.Res.Model[in.Sym])
	}
	os.WriteFile(base+".txt", []byte(txt), 0o644)
	if out.Reproduced {
		return fmt.Sprintf("VIOLATION property=%s replay=%s obligation=%s reproduced-on-real-code", pd.ID, out.Path, o.Name)
	}
	path := out.Path
	if path == "" {
		path = base + ".txt"
	}
	return fmt.Sprintf("VIOLATION property=%s replay=%s obligation=%s counterexample-not-reproduced no-failing-input-found", pd.ID, path, o.Name)
}

func replayCounterexample(p *Program, res *UnitResult, o *Obligation, base string, timeout time.Duration) replayOutcome {
	u := res.unit
	root := u.root
	if root.Parent() != nil || root.Pkg == nil {
		return replayOutcome{Note: "replay not supported for closures"}
	}
	for name := range u.trusted {
		if strings.HasPrefix(name, "os.") || strings.HasPrefix(name, "(*os.File)") || strings.HasPrefix(name, "net.") {
			return replayOutcome{Note: "not replayed: the function has file-system or network effects (" + name + "); running a counterexample would perform them"}
		}
	}
	var clause *Clause
	if o.Kind == "ensures" {
		label := o.Label
		if i := strings.Index(label, "@ret"); i >= 0 {
			label = label[:i]
		}
		if ct := u.ctFor(u.rootKey); ct != nil {
			for i := range ct.Ensures {
				if ct.Ensures[i].Label == label {
					clause = &ct.Ensures[i]
				}
			}
		}
		if clause == nil {
			return replayOutcome{Note: "clause not found for replay"}
		}
	} else if !panicKinds[o.Kind] && o.Kind != "overread" {
		return replayOutcome{Note: "replay of " + o.Kind + " obligations is not supported (the state is internal to the function); the model is listed below"}
	}
	if strings.Contains(o.Name, "inv-") {
		return replayOutcome{Note: "model starts at a loop head"}
	}
	// the quantifier-free relaxation keeps the oracle fast; the inputs found by the deciding query are pinned,
	// and the replay on the real code is what validates the candidate
	// When the deciding query (quantified assumptions included) was satisfiable, its models are read directly;
	// otherwise the quantifier-free relaxation proposes candidates. Either way the replay on the real code is what
	// validates the candidate.
	scripts := []string{u.scriptQF(o)}
	if o.Res.Verdict == "sat" && o.Res.Solver != "qf-relaxation" {
		scripts = []string{u.script(o), scripts[0]}
	}
	// look for a small counterexample first: input slices and strings of at most 64, then 2048 elements
	var script, small string
	found := false
	for _, sc := range scripts {
		for _, bound := range []int{64, 2048} {
			var cs []string
			for i, prm := range root.Params {
				v := u.rootFrame.params[i]
				for k, l := range leavesOf(prm.Type(), "elem") {
					if l.Kind == "slice.cap" || l.Kind == "str.len" {
						cs = append(cs, le(v.S[k], intLit(int64(bound))))
					}
				}
			}
			small = fmt.Sprintf("(assert %s)\n", and(cs...))
			if r := solveTerms(sc+small, []string{"alloc0"}, timeout); r != nil {
				found = true
				script = sc
				break
			}
		}
		if found {
			break
		}
	}
	if !found {
		return replayOutcome{Note: "no counterexample with inputs of at most 2048 elements was found by the quantifier-free search; not replayed"}
	}
	orc := &Oracle{ctx: u.ctx, base: script + small, known: map[string]string{}, timeout: timeout}
	m := &materializer{u: u, orc: orc, pkg: root.Pkg.Pkg, ptrVars: map[string]string{}, imports: map[string]bool{"testing": true, "fmt": true}}
	var argExprs []string
	defer func() {
		recover()
	}()
	for round := 0; round < 16; round++ {
		m.decls, m.nvar, m.ptrVars, m.approx, m.tooBig = nil, 0, map[string]string{}, nil, false
		argExprs = nil
		for i, prm := range root.Params {
			v := u.rootFrame.params[i]
			argExprs = append(argExprs, m.value(prm.Type(), v.S, 0))
		}
		if !orc.flush() || orc.failed {
			break
		}
	}
	if m.tooBig {
		return replayOutcome{Note: "model needs an allocation larger than the replay limit; skipped"}
	}
	if orc.failed {
		return replayOutcome{Note: "could not extract a complete model"}
	}
	testName := "TestGovcReplay"
	var b strings.Builder
	fmt.Fprintf(&b, "// Code generated by govc from a solver counterexample. Obligation: %s\n", o.Name)
	fmt.Fprintf(&b, "package %s\n\nimport (\n", root.Pkg.Pkg.Name())
	var imps []string
	for k := range m.imports {
		imps = append(imps, k)
	}
	sortStringsInPlace(imps)
	for _, k := range imps {
		fmt.Fprintf(&b, "\t%q\n", k)
	}
	b.WriteString(")\n\n")
	header := b.String()
	b.Reset()
	fmt.Fprintf(&b, "func %s(t *testing.T) {\n", testName)
	for _, d := range m.decls {
		b.WriteString("\t" + d + "\n")
	}
	nres := root.Signature.Results().Len()
	// bind arguments to named locals
	var inNames []string
	for i, prm := range root.Params {
		nm := fmt.Sprintf("in_%s", prm.Name())
		if prm.Name() == "" || prm.Name() == "_" {
			nm = fmt.Sprintf("in_%d", i)
		}
		inNames = append(inNames, nm)
		fmt.Fprintf(&b, "\t%s := %s\n\t_ = %s\n", nm, argExprs[i], nm)
	}
	var clauseSrc, clauseWhy string
	var gt *goTranslator
	if clause != nil {
		gt = &goTranslator{u: u, fn: root, pkg: root.Pkg.Pkg, qual: m.qual, vars: map[string]goVar{}, specs: map[string]bool{}, imports: m.imports}
		for i, prm := range root.Params {
			gt.vars[prm.Name()] = goVar{src: inNames[i], typ: prm.Type(), old: "old_" + inNames[i]}
		}
		rn := resultNames(root)
		for i, n := range rn {
			gt.vars[n] = goVar{src: fmt.Sprintf("r%d", i), typ: root.Signature.Results().At(i).Type()}
			if len(rn) == 1 {
				gt.vars["result"] = gt.vars[n]
			}
		}
		clauseSrc, clauseWhy = gt.clauseToGo(clause.Expr)
		if clauseSrc != "" {
			m.imports["reflect"] = true
			m.imports["unsafe"] = true
			for i, prm := range root.Params {
				fmt.Fprintf(&b, "\told_%s := govcClone(%s).(%s)\n\t_ = old_%s\n", inNames[i], inNames[i], m.typeStr(prm.Type()), inNames[i])
			}
		}
	}
	if clause != nil && clauseSrc == "" {
		return replayOutcome{Note: "the violated clause cannot be evaluated on the real code: " + clauseWhy}
	}
	var call string
	if root.Signature.Recv() != nil {
		call = fmt.Sprintf("(%s).%s(%s)", inNames[0], root.Name(), strings.Join(inNames[1:], ", "))
	} else {
		call = fmt.Sprintf("%s(%s)", root.Name(), strings.Join(inNames, ", "))
	}
	lhs := ""
	if nres > 0 {
		var rs []string
		for i := 0; i < nres; i++ {
			rs = append(rs, fmt.Sprintf("r%d", i))
		}
		lhs = strings.Join(rs, ", ") + " := "
	}
	b.WriteString("\tdefer func() {\n\t\tif r := recover(); r != nil {\n\t\t\tfmt.Printf(\"GOVC-REPLAY-PANIC: %v\\n\", r)\n\t\t}\n\t}()\n")
	if o.Kind == "overread" {
		// rebuild every byte-slice argument with cap == len: an access beyond len then panics
		for i, prm := range root.Params {
			if isByteSlice(prm.Type()) {
				fmt.Fprintf(&b, "\t%s = append(make([]byte, 0, len(%s)), %s...)\n", inNames[i], inNames[i], inNames[i])
			}
		}
	}
	fmt.Fprintf(&b, "\t%s%s\n", lhs, call)
	if nres > 0 {
		var rs []string
		for i := 0; i < nres; i++ {
			rs = append(rs, fmt.Sprintf("r%d", i))
		}
		fmt.Fprintf(&b, "\tfmt.Printf(\"GOVC-REPLAY-RETURNED: %%v\\n\", []any{%s})\n", strings.Join(rs, ", "))
	} else {
		b.WriteString("\tfmt.Println(\"GOVC-REPLAY-RETURNED\")\n")
	}
	if clauseSrc != "" {
		fmt.Fprintf(&b, "\tfmt.Printf(\"GOVC-REPLAY-CLAUSE %s: %%v\\n\", %s)\n", clause.Label, clauseSrc)
	}
	b.WriteString("}\n")
	// imports are complete only now: rebuild the header
	var hb strings.Builder
	fmt.Fprintf(&hb, "// Code generated by govc from a solver counterexample. Obligation: %s\n", o.Name)
	fmt.Fprintf(&hb, "package %s\n\nimport (\n", root.Pkg.Pkg.Name())
	var imps2 []string
	for k := range m.imports {
		imps2 = append(imps2, k)
	}
	sortStringsInPlace(imps2)
	for _, k := range imps2 {
		fmt.Fprintf(&hb, "\t%q\n", k)
	}
	hb.WriteString(")\n\n")
	if m.needSet {
		hb.WriteString(govcSetHelper)
	}
	if clauseSrc != "" {
		hb.WriteString(govcCloneHelper)
		if gt.needAlias {
			hb.WriteString(govcAliasHelper)
		}
		for _, sp := range gt.specSrc {
			hb.WriteString(sp)
		}
	}
	_ = header
	src := hb.String() + b.String()
	goPath := base + "_test.go"
	os.WriteFile(goPath, []byte(src), 0o644)
	// overlay into the package directory
	pkgDir := p.pkgDir(root.Pkg.Pkg.Path())
	ovPath := base + ".overlay.json"
	ov := map[string]any{"Replace": map[string]string{filepath.Join(pkgDir, "zz_govc_replay_test.go"): goPath}}
	data, _ := json.Marshal(ov)
	os.WriteFile(ovPath, data, 0o644)
	cmd := exec.Command("bash", "-c", fmt.Sprintf("ulimit -v 4194304; go test -tags verif -v -overlay %q -vet=off -timeout 60s -count=1 -run '^%s$' %q 2>&1", ovPath, testName, root.Pkg.Pkg.Path()))
	cmd.Dir = p.Harness
	cmd.Env = goEnv()
	outB, _ := cmd.CombinedOutput()
	out := string(outB)
	ro := replayOutcome{Path: goPath, Ran: true, Output: trimOut(out)}
	if len(m.approx) > 0 {
		ro.Note = "approximations: " + strings.Join(dedup(m.approx), "; ")
	}
	if clause != nil && strings.Contains(out, "GOVC-REPLAY-CLAUSE "+clause.Label+": false") {
		ro.Reproduced = true
		ro.Note += "\nthe violated clause evaluates to false on the real code for the counterexample"
	} else if clause != nil && strings.Contains(out, "GOVC-REPLAY-CLAUSE "+clause.Label+": true") {
		ro.Note += "\nthe clause holds on the real code for this candidate input"
	} else if strings.Contains(out, "GOVC-REPLAY-PANIC") || strings.Contains(out, "panic:") {
		ro.Reproduced = true
		ro.Note += "\nthe real code panics on the counterexample"
	} else if strings.Contains(out, "GOVC-REPLAY-RETURNED") {
		ro.Note += "\nthe real code returned normally on the counterexample"
	} else {
		ro.Note += "\nthe replay did not run to completion (build error?)"
	}
	return ro
}

const govcSetHelper = `func govcSet(structPtr any, field string, val any) {
	v := reflect.ValueOf(structPtr).Elem()
	f := v.FieldByName(field)
	reflect.NewAt(f.Type(), unsafe.Pointer(f.UnsafeAddr())).Elem().Set(reflect.ValueOf(val).Convert(f.Type()))
}

`

var _ = ssa.NewProgram
