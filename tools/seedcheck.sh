#!/bin/bash
# usage: seedcheck.sh <seed-dir> <property-id>
# 1. confirms the seeded change in a scratch worktree of /repo's HEAD (suite passes, demo fails with it, passes without it)
# 2. runs the registered quick check against the changed tree:
#      default        : the scratch worktree (GOVC_REPO), so that work in /repo is not disturbed
#      SEED_IN_REPO=1 : git -C /repo apply ... ; check ; git -C /repo checkout -- .   (needs a clean /repo)
set -u
SEED=$1; PROP=$2; NAME=$(basename $SEED)
export GOFLAGS=-mod=mod GOPROXY=off GOSUMDB=off GOTOOLCHAIN=local
WT=/tmp/seedwt-$NAME-$$
git -C /repo worktree add -q --detach $WT HEAD || exit 2
cleanup() { git -C /repo worktree remove --force $WT 2>/dev/null; rm -rf /verif/.work/harness-seed-$$; }
trap cleanup EXIT
DEMODIR=$(python3 -c "import json;print(json.load(open('$SEED/meta.json'))['demo_dir'])")
run_demo() { (cd $WT/$DEMODIR && cp $SEED/demo_test.go ./zz_demo_test.go && go test -count=1 -run 'Demo|Seed' . 2>&1 | tail -3; rm -f zz_demo_test.go); }
echo "== clean tree: demo"; run_demo | tail -1
if ! git -C $WT apply $SEED/patch.diff; then echo "PATCH DOES NOT APPLY"; exit 3; fi
echo "== patched: suite"; for m in protocol service attachment terminal; do (cd $WT/$m && go test -count=1 ./... 2>&1 | grep -v "no test files" | tail -5); done
echo "== patched: demo"; run_demo | tail -2
echo "== check with the change"
if [ "${SEED_IN_REPO:-}" = 1 ]; then
  git -C /repo apply $SEED/patch.diff || { echo "cannot apply to /repo"; exit 3; }
  (cd /verif && timeout 900 bin/govc check -p $PROP > /tmp/seedcheck-$NAME.log 2>&1; echo "exit=$?")
  git -C /repo checkout -q -- .
else
  (cd /verif && GOVC_REPO=$WT GOVC_HARNESS=/verif/.work/harness-seed-$$ timeout 900 bin/govc check -p $PROP > /tmp/seedcheck-$NAME.log 2>&1; echo "exit=$?")
fi
echo "violations: $(grep -c '^VIOLATION' /tmp/seedcheck-$NAME.log)"; grep '^VIOLATION' /tmp/seedcheck-$NAME.log | head -4 | cut -c1-260; grep '^govc:' /tmp/seedcheck-$NAME.log | cut -c1-200
