#!/bin/bash
# must-fail self-test corpus: re-runs every archived seeded change (seeded/<id>/patch.diff) against the current engine in a scratch
# worktree of /repo HEAD and prints, per seed, how many violations the property check reports (0 = the change is not detected).
# Run after every engine or contract change; takes 1-2 hours. Usage: tools/selftest.sh > selftest.log
cd /verif
for d in seeded/*/; do
  n=$(basename $d); p=${n%%-*}
  [ -f $d/patch.diff ] || continue
  case $n in C09-existing-*) continue;; esac
  echo "######## $n"
  nice -n 19 tools/seedcheck.sh /verif/$d $p 2>&1 | grep -v conda | grep "violations:\|PATCH DOES NOT\|^VIOLATION\|^govc\|patched: demo" -A0 | cut -c1-240
done
